/-
The absolute notations of `-a` / `-b` for ALL values (C14_abs): a value is
rendered from numeric fields through a row's own pattern items, and the
interpreter of `S4V.Model.Cli` (`parseItems`, `rowValue`, `datetimeParseFromStr`)
is shown to give back the instant the fields denote.

Layers:
1. digits (`pad`), the fields of a value (`Fields`), rendering (`renderItems`);
2. one round-trip lemma per specifier (`parseItem_render`), lifted to item lists
   (`parseItems_render`) under a decidable shape condition (`scannable`,
   `distinctSlots`);
3. what the resulting `Parsed` holds (`getField_applyItems_*`);
4. `datetime_parse_from_str` on a rendered value (`dtParse_civil`, `dtParse_ts`);
5. `rowValue` (zone-name rewriting, the appended midnight) and the per-row
   decidable condition `RowOk`; `attemptRow_render`.
-/
import S4V.Lemmas.CliTime
import S4V.Lemmas.Time

namespace S4V.Lemmas.CliAbs
open S4V.Model.Cli S4V.Model.Time S4V.Gen.CliTables S4V.Lemmas.CliTime

/-! ## digits -/

def digitOf : Nat → Char
  | 0 => '0' | 1 => '1' | 2 => '2' | 3 => '3' | 4 => '4'
  | 5 => '5' | 6 => '6' | 7 => '7' | 8 => '8' | _ => '9'

def digitChar (n : Nat) : Char := digitOf (n % 10)

/-- the `k` low decimal digits of `n`, most significant first (zero padded) -/
def pad : Nat → Nat → List Char
  | 0, _ => []
  | k + 1, n => pad k (n / 10) ++ [digitChar n]

theorem digitOf_spec : ∀ m, m < 10 → isDig (digitOf m) = true ∧ digVal (digitOf m) = m := by decide

theorem isDig_digitChar (n : Nat) : isDig (digitChar n) = true :=
  (digitOf_spec (n % 10) (Nat.mod_lt _ (by decide))).1

theorem digVal_digitChar (n : Nat) : digVal (digitChar n) = n % 10 :=
  (digitOf_spec (n % 10) (Nat.mod_lt _ (by decide))).2

theorem length_pad (k n : Nat) : (pad k n).length = k := by
  induction k generalizing n with
  | zero => rfl
  | succ k ih => simp [pad, ih]

theorem pad_digits (k n : Nat) : ∀ c ∈ pad k n, isDig c = true := by
  induction k generalizing n with
  | zero => simp [pad]
  | succ k ih =>
    intro c hc
    simp only [pad, List.mem_append, List.mem_singleton] at hc
    rcases hc with hc | hc
    · exact ih _ c hc
    · subst hc; exact isDig_digitChar n

theorem numVal_snoc (l : List Char) (c : Char) : numVal (l ++ [c]) = numVal l * 10 + digVal c := by
  simp [numVal, List.foldl_append]

theorem numVal_pad (k n : Nat) : numVal (pad k n) = n % 10 ^ k := by
  induction k generalizing n with
  | zero => simp [pad, numVal, Nat.mod_one]
  | succ k ih =>
    rw [pad, numVal_snoc, ih, digVal_digitChar, Nat.pow_succ, Nat.mul_comm (10 ^ k) 10, Nat.mod_mul]
    omega

theorem numVal_pad_lt (k n : Nat) (h : n < 10 ^ k) : numVal (pad k n) = n := by
  rw [numVal_pad, Nat.mod_eq_of_lt h]

theorem pad_ne_nil (k n : Nat) (hk : 1 ≤ k) : pad k n ≠ [] := by
  intro e
  have := length_pad k n
  rw [e] at this
  simp at this
  omega

theorem pad2 (n : Nat) : pad 2 n = [digitChar (n / 10), digitChar n] := rfl
theorem pad4 (n : Nat) : pad 4 n = [digitChar (n / 10 / 10 / 10), digitChar (n / 10 / 10), digitChar (n / 10), digitChar n] := rfl

/-! ## the fields of a value -/

/-- how a numeric zone is spelled -/
inductive ZStyle
  | compact   -- `±HHMM`
  | colon     -- `±HH:MM`
  | hours     -- `±HH`     (`%#z` only)
  | zuluU     -- `Z`       (`%#z` only)
  | zuluL     -- `z`       (`%#z` only)
  deriving DecidableEq, Repr

/-- everything a value of any row's grammar can say. A row uses the fields its pattern names. -/
structure Fields where
  year : Nat
  month : Nat
  day : Nat
  hour : Nat
  minute : Nat
  second : Nat
  /-- `%3f` -/
  milli : Nat
  /-- `%6f` -/
  micro : Nat
  /-- `%z` `%:z` `%#z`: sign character, hours, minutes, spelling -/
  zsign : Char
  zh : Nat
  zm : Nat
  zstyle : ZStyle
  /-- `%Z`: a zone name -/
  zname : List Char
  /-- `%s`: the decimal digits as written (leading zeros allowed) -/
  ts : List Char

/-- U+2212 MINUS SIGN, which chrono also reads as a minus -/
def uminus : Char := Char.ofNat 0x2212

/-- the offset, in seconds east, a numeric zone spelling denotes -/
def Fields.zoneOff (f : Fields) : Int :=
  let sg : Int := if f.zsign = '+' then 1 else -1
  match f.zstyle with
  | .compact | .colon => sg * ((f.zh : Int) * 3600 + (f.zm : Int) * 60)
  | .hours => sg * ((f.zh : Int) * 3600)
  | .zuluU | .zuluL => 0

def renderZone (f : Fields) : List Char :=
  match f.zstyle with
  | .compact => f.zsign :: (pad 2 f.zh ++ pad 2 f.zm)
  | .colon => f.zsign :: (pad 2 f.zh ++ ':' :: pad 2 f.zm)
  | .hours => f.zsign :: pad 2 f.zh
  | .zuluU => ['Z']
  | .zuluL => ['z']

def Fields.fracVal (f : Fields) (k : Nat) : Nat := if k = 3 then f.milli else f.micro

/-- the text of one pattern item: `%Y` four digits, `%m %d %H %M %S` two, `%3f`/`%6f` exactly 3/6 -/
def renderItem (f : Fields) : Item → List Char
  | .lit c => [c]
  | .space => [' ']
  | .year => pad 4 f.year
  | .month => pad 2 f.month
  | .day => pad 2 f.day
  | .hour => pad 2 f.hour
  | .minute => pad 2 f.minute
  | .second => pad 2 f.second
  | .timestamp => f.ts
  | .nano k => pad k (f.fracVal k)
  | .tz _ => renderZone f
  | .tzName => f.zname
  | .bad => []

def renderItems (f : Fields) : List Item → List Char
  | [] => []
  | it :: its => renderItem f it ++ renderItems f its

theorem renderItems_append (f : Fields) (a b : List Item) :
    renderItems f (a ++ b) = renderItems f a ++ renderItems f b := by
  induction a with
  | nil => rfl
  | cons x xs ih => simp [renderItems, ih]

/-- the largest `%s` the property speaks of: chrono's last second (262142-12-31T23:59:59) minus a day -/
def tsMax : Nat := 8210266790399

/-- the numeric offset text of a zone name (`+HH:MM`), read independently of the interpreter -/
def zoneText (z : List Char) : Option (Char × Nat × Nat) :=
  match z with
  | [sg, a, b, ':', c, d] =>
    if (sg = '+' ∨ sg = '-') ∧ isDig a ∧ isDig b ∧ isDig c ∧ isDig d then
      some (sg, digVal a * 10 + digVal b, digVal c * 10 + digVal d)
    else none
  | _ => none

/-- the offset a zone name stands for in the generated table (0 when absent / ambiguous) -/
def nameOff (name : List Char) : Int :=
  match (lookupTz name).bind fun z => zoneText z.toList with
  | some (sg, hh, mm) => (if sg = '+' then 1 else -1) * ((hh : Int) * 3600 + (mm : Int) * 60)
  | none => 0

/-- the ranges the interpreter accepts -/
structure Fields.Valid (f : Fields) : Prop where
  year : f.year ≤ 9999
  date : validDate f.year f.month f.day = true
  hour : f.hour ≤ 23
  minute : f.minute ≤ 59
  /-- 60 = a leap second reading -/
  second : f.second ≤ 60
  milli : f.milli < 1000
  micro : f.micro < 1000000
  zsign : f.zsign = '+' ∨ f.zsign = '-' ∨ f.zsign = uminus
  zh : f.zh ≤ 23
  zm : f.zm ≤ 59
  /-- an unambiguous name of the generated table -/
  zname : ∃ z, lookupTz f.zname = some z ∧ z ≠ ""
  ts_ne : f.ts ≠ []
  ts_dig : ∀ c ∈ f.ts, isDig c = true
  ts_le : numVal f.ts ≤ tsMax

/-- `%z` and `%:z` want the minutes; `%#z` takes every spelling -/
def styleOk (f : Fields) (its : List Item) : Bool :=
  its.all fun it => it != .tz false || f.zstyle == .compact || f.zstyle == .colon

/-! ## what an item stores -/

def isField : Item → Bool
  | .year | .month | .day | .hour | .minute | .second | .timestamp | .nano _ | .tz _ => true
  | _ => false

def getField : Item → Parsed → Option Int
  | .year, p => p.year
  | .month, p => p.month
  | .day, p => p.day
  | .hour, p => p.hour
  | .minute, p => p.minute
  | .second, p => p.second
  | .timestamp, p => p.timestamp
  | .nano _, p => p.nano
  | .tz _, p => p.offset
  | _, _ => none

def valueOf (f : Fields) : Item → Int
  | .year => f.year
  | .month => f.month
  | .day => f.day
  | .hour => f.hour
  | .minute => f.minute
  | .second => f.second
  | .timestamp => numVal f.ts
  | .nano k => ((f.fracVal k * 10 ^ (9 - k) : Nat) : Int)
  | .tz _ => f.zoneOff
  | _ => 0

def applyItem (f : Fields) (it : Item) (p : Parsed) : Parsed :=
  match it with
  | .year => { p with year := some (valueOf f it) }
  | .month => { p with month := some (valueOf f it) }
  | .day => { p with day := some (valueOf f it) }
  | .hour => { p with hour := some (valueOf f it) }
  | .minute => { p with minute := some (valueOf f it) }
  | .second => { p with second := some (valueOf f it) }
  | .timestamp => { p with timestamp := some (valueOf f it) }
  | .nano _ => { p with nano := some (valueOf f it) }
  | .tz _ => { p with offset := some (valueOf f it) }
  | _ => p

def applyItems (f : Fields) : List Item → Parsed → Parsed
  | [], p => p
  | it :: its, p => applyItems f its (applyItem f it p)

def sameSlot : Item → Item → Bool
  | .year, .year | .month, .month | .day, .day | .hour, .hour | .minute, .minute | .second, .second
  | .timestamp, .timestamp | .nano _, .nano _ | .tz _, .tz _ => true
  | _, _ => false

def distinctSlots : List Item → Bool
  | [] => true
  | it :: its => its.all (fun j => !sameSlot it j) && distinctSlots its

theorem getField_applyItem_other (f : Fields) (i j : Item) (p : Parsed) (h : sameSlot i j = false) :
    getField i (applyItem f j p) = getField i p := by
  cases i <;> cases j <;> first | rfl | simp [sameSlot] at h

theorem getField_applyItem_self (f : Fields) (i : Item) (p : Parsed) (h : isField i = true) :
    getField i (applyItem f i p) = some (valueOf f i) := by
  cases i <;> first | rfl | simp [isField] at h

theorem getField_applyItems_absent (f : Fields) (i : Item) (its : List Item) (p : Parsed)
    (h : ∀ j ∈ its, sameSlot i j = false) : getField i (applyItems f its p) = getField i p := by
  induction its generalizing p with
  | nil => rfl
  | cons j r ih =>
    rw [applyItems, ih _ (fun x hx => h x (by simp [hx])), getField_applyItem_other f i j p (h j (by simp))]

theorem getField_applyItems_mem (f : Fields) (i : Item) (its : List Item) (p : Parsed) (hf : isField i = true)
    (hm : i ∈ its) (hd : distinctSlots its = true) : getField i (applyItems f its p) = some (valueOf f i) := by
  induction its generalizing p with
  | nil => simp at hm
  | cons j r ih =>
    simp only [distinctSlots, Bool.and_eq_true, List.all_eq_true, Bool.not_eq_true'] at hd
    rw [applyItems]
    rcases List.mem_cons.mp hm with e | hm'
    · subst e
      rw [getField_applyItems_absent f i r _ hd.1, getField_applyItem_self f i p hf]
    · exact ih _ hm' hd.2

/-! ## one round trip per specifier -/

theorem trimStart_of_head (c : Char) (r : List Char) (h : isWs c = false) : trimStart (c :: r) = c :: r := by
  simp [trimStart, List.dropWhile, h]

theorem val2 (n : Nat) (h : n < 100) : numVal [digitChar (n / 10), digitChar n] = n := by
  rw [numVal_two, digVal_digitChar, digVal_digitChar]; omega

theorem scan2 (n : Nat) (rest : List Char) (h : n < 100) :
    scanNumber (trimStart (pad 2 n ++ rest)) 1 2 = some (n, rest) := by
  rw [pad2]
  simp only [List.cons_append, List.nil_append]
  rw [trimStart_digit _ _ (isDig_digitChar _), scanNumber_2 _ _ _ (isDig_digitChar _) (isDig_digitChar _), val2 n h]

theorem val4 (n : Nat) (h : n < 10000) :
    numVal [digitChar (n / 10 / 10 / 10), digitChar (n / 10 / 10), digitChar (n / 10), digitChar n] = n := by
  rw [numVal_four]; simp only [digVal_digitChar]; omega

theorem digit_not_sign (c : Char) (h : isDig c = true) : c ≠ '-' ∧ c ≠ '+' := by
  constructor <;> (intro e; subst e; revert h; decide)

theorem parse_year (f : Fields) (hy : f.year ≤ 9999) (rest : List Char) (p : Parsed) (hn : p.year = none) :
    parseItem .year (pad 4 f.year ++ rest) p = some ({ p with year := some (f.year : Int) }, rest) := by
  rw [pad4]
  simp only [List.cons_append, List.nil_append]
  have hd := isDig_digitChar (f.year / 10 / 10 / 10)
  have hs := digit_not_sign _ hd
  simp only [parseItem]
  rw [trimStart_digit _ _ hd]
  split
  · rename_i r e; injection e with e1 _; exact absurd e1 hs.1
  · rename_i r e; injection e with e1 _; exact absurd e1 hs.2
  · rw [scanNumber_4 _ _ _ _ _ hd (isDig_digitChar _) (isDig_digitChar _) (isDig_digitChar _), val4 _ (by omega)]
    simp [hn, setF]

inductive RestOk : Item → List Char → Prop
  | space (rest : List Char) (h : trimStart rest = rest) : RestOk .space rest
  | timestamp : RestOk .timestamp []
  | tzPerm : RestOk (.tz true) []
  | tzStrict (rest : List Char) : RestOk (.tz false) rest
  | lit (c : Char) (rest : List Char) : RestOk (.lit c) rest
  | year (rest : List Char) : RestOk .year rest
  | month (rest : List Char) : RestOk .month rest
  | day (rest : List Char) : RestOk .day rest
  | hour (rest : List Char) : RestOk .hour rest
  | minute (rest : List Char) : RestOk .minute rest
  | second (rest : List Char) : RestOk .second rest
  | nano3 (rest : List Char) : RestOk (.nano 3) rest
  | nano6 (rest : List Char) : RestOk (.nano 6) rest

theorem isWs_sign (c : Char) (h : c = '+' ∨ c = '-' ∨ c = uminus) : isWs c = false := by
  rcases h with h | h | h <;> subst h <;> decide

theorem scanTz_sign (perm : Bool) (sg : Char) (hs : sg = '+' ∨ sg = '-' ∨ sg = uminus) (r : List Char) :
    scanTz perm (sg :: r) =
      match r with
      | h1 :: h2 :: r2 =>
        if isDig h1 && isDig h2 then
          let hours : Int := (digVal h1 * 10 + digVal h2 : Nat)
          let r3 := r2.dropWhile fun x => x == ':' || isWs x
          match r3 with
          | m1 :: m2 :: r4 =>
            if isDig m1 && isDig m2 && digVal m1 ≤ 5 then
              let secs : Int := hours * 3600 + ((digVal m1 * 10 + digVal m2 : Nat) : Int) * 60
              some (if sg = '+' then secs else -secs, r4)
            else none
          | [_] => none
          | [] => if perm then some (if sg = '+' then hours * 3600 else -(hours * 3600), []) else none
        else none
      | _ => none := by
  rcases hs with h | h | h <;> subst h <;> cases perm <;> simp [scanTz, uminus] <;> rfl

theorem digit_not_colon_ws (c : Char) (h : isDig c = true) : (c == ':' || isWs c) = false := by
  rw [isWs_of_isDig h]
  have : c ≠ ':' := by intro e; subst e; revert h; decide
  simp [this]

theorem scanTz_render (f : Fields) (hf : f.Valid) (perm : Bool) (rest : List Char)
    (hst : perm = true ∨ f.zstyle = .compact ∨ f.zstyle = .colon)
    (hrest : perm = false ∨ rest = []) :
    scanTz perm (trimStart (renderZone f ++ rest)) = some (f.zoneOff, rest) := by
  have hzh : f.zh < 100 := by have := hf.zh; omega
  have hzm : f.zm < 100 := by have := hf.zm; omega
  have h5 : digVal (digitChar (f.zm / 10)) ≤ 5 := by
    rw [digVal_digitChar]; have := hf.zm; omega
  have vh := val2 f.zh hzh
  have vm := val2 f.zm hzm
  rw [numVal_two] at vh vm
  have d1 := isDig_digitChar (f.zh / 10)
  have d2 := isDig_digitChar f.zh
  have d3 := isDig_digitChar (f.zm / 10)
  have d4 := isDig_digitChar f.zm
  have hdw := digit_not_colon_ws _ d3
  have hcol : (fun x : Char => x == ':' || isWs x) ':' = true := by decide
  cases hsty : f.zstyle with
  | compact =>
    simp only [renderZone, hsty, pad2, List.cons_append, List.nil_append]
    rw [trimStart_of_head _ _ (isWs_sign _ hf.zsign), scanTz_sign perm _ hf.zsign]
    simp only [d1, d2, d3, d4, Bool.and_self, if_true, List.dropWhile, hdw, h5, decide_true, vh, vm,
      Fields.zoneOff, hsty]
    by_cases hp : f.zsign = '+' <;> simp [hp] <;> omega
  | colon =>
    simp only [renderZone, hsty, pad2, List.cons_append, List.nil_append]
    rw [trimStart_of_head _ _ (isWs_sign _ hf.zsign), scanTz_sign perm _ hf.zsign]
    simp only [d1, d2, d3, d4, Bool.and_self, if_true, List.dropWhile, hcol, hdw, h5, decide_true, vh, vm,
      Fields.zoneOff, hsty]
    by_cases hp : f.zsign = '+' <;> simp [hp] <;> omega
  | hours =>
    have hp : perm = true := by rcases hst with h | h | h <;> simp_all
    have hr : rest = [] := by rcases hrest with h | h <;> simp_all
    subst hp; subst hr
    simp only [renderZone, hsty, pad2, List.append_nil]
    rw [trimStart_of_head _ _ (isWs_sign _ hf.zsign), scanTz_sign true _ hf.zsign]
    simp only [d1, d2, Bool.and_self, if_true, List.dropWhile, vh, Fields.zoneOff, hsty]
    by_cases hp : f.zsign = '+' <;> simp [hp]
  | zuluU =>
    have hp : perm = true := by rcases hst with h | h | h <;> simp_all
    subst hp
    simp [renderZone, hsty, trimStart, isWs, scanTz, Fields.zoneOff]
  | zuluL =>
    have hp : perm = true := by rcases hst with h | h | h <;> simp_all
    subst hp
    simp [renderZone, hsty, trimStart, isWs, scanTz, Fields.zoneOff]

theorem parseItem_render (f : Fields) (hf : f.Valid) (it : Item) (rest : List Char) (p : Parsed)
    (hst : it = .tz false → f.zstyle = .compact ∨ f.zstyle = .colon)
    (hr : RestOk it rest) (hn : getField it p = none) :
    parseItem it (renderItem f it ++ rest) p = some (applyItem f it p, rest) := by
  cases hr with
  | space rest h =>
    have h1 : trimStart (' ' :: rest) = trimStart rest := by
      simp [trimStart, List.dropWhile, show isWs ' ' = true by decide]
    simp [parseItem, renderItem, applyItem, h1, h]
  | lit c rest => simp [parseItem, renderItem, applyItem]
  | year rest =>
    simp only [getField] at hn
    simp only [renderItem, applyItem, valueOf]
    exact parse_year f hf.year rest p hn
  | month rest =>
    simp only [getField] at hn
    have := hf.date
    simp only [validDate, Bool.and_eq_true, decide_eq_true_eq] at this
    simp [parseItem, renderItem, applyItem, valueOf, scan2 f.month rest (by omega), hn, setF]
  | day rest =>
    simp only [getField] at hn
    have := hf.date
    have hdim : daysInMonth f.year f.month ≤ 31 := by unfold daysInMonth; split <;> split <;> decide
    simp only [validDate, Bool.and_eq_true, decide_eq_true_eq] at this
    simp [parseItem, renderItem, applyItem, valueOf, scan2 f.day rest (by omega), hn, setF]
  | hour rest =>
    simp only [getField] at hn
    have := hf.hour
    simp [parseItem, renderItem, applyItem, valueOf, scan2 f.hour rest (by omega), hn, setF]
  | minute rest =>
    simp only [getField] at hn
    have := hf.minute
    simp [parseItem, renderItem, applyItem, valueOf, scan2 f.minute rest (by omega), hn, setF]
  | second rest =>
    simp only [getField] at hn
    have := hf.second
    simp [parseItem, renderItem, applyItem, valueOf, scan2 f.second rest (by omega), hn, setF]
  | timestamp =>
    simp only [getField] at hn
    obtain ⟨c, r, e⟩ := List.exists_cons_of_ne_nil hf.ts_ne
    have hc : isDig c = true := hf.ts_dig c (by simp [e])
    have hv : numVal f.ts ≤ i64Max := Nat.le_trans hf.ts_le (by decide)
    have hs := scanNumber_exact f.ts [] 1 hf.ts_ne (by rw [e]; simp) hf.ts_dig hv
    rw [List.append_nil] at hs
    have ht : trimStart f.ts = f.ts := by rw [e]; exact trimStart_digit c r hc
    simp only [parseItem, renderItem, applyItem, valueOf, List.append_nil, ht, hs, hn]
    simp [setF]
  | nano3 rest =>
    simp only [getField] at hn
    have hv : numVal (pad 3 f.milli) = f.milli := numVal_pad_lt 3 _ hf.milli
    have hs := scanNumber_exact (pad 3 f.milli) rest 3 (pad_ne_nil 3 _ (by decide)) (by rw [length_pad]; exact Nat.le_refl _)
      (pad_digits 3 _) (by rw [hv]; exact Nat.le_trans (Nat.le_of_lt hf.milli) (by decide))
    rw [length_pad, hv] at hs
    simp only [parseItem, renderItem, applyItem, valueOf, Fields.fracVal, if_true, hs, hn]
    simp [setF]
  | nano6 rest =>
    simp only [getField] at hn
    have hv : numVal (pad 6 f.micro) = f.micro := numVal_pad_lt 6 _ hf.micro
    have hs := scanNumber_exact (pad 6 f.micro) rest 6 (pad_ne_nil 6 _ (by decide)) (by rw [length_pad]; exact Nat.le_refl _)
      (pad_digits 6 _) (by rw [hv]; exact Nat.le_trans (Nat.le_of_lt hf.micro) (by decide))
    rw [length_pad, hv] at hs
    simp only [parseItem, renderItem, applyItem, valueOf, Fields.fracVal, hn]
    simp [hs, setF]
  | tzPerm =>
    simp only [getField] at hn
    simp only [parseItem, renderItem, applyItem, valueOf, scanTz_render f hf true [] (Or.inl rfl) (Or.inr rfl), hn]
    simp [setF]
  | tzStrict rest =>
    simp only [getField] at hn
    simp only [parseItem, renderItem, applyItem, valueOf, scanTz_render f hf false rest (Or.inr (hst rfl)) (Or.inl rfl), hn]
    simp [setF]

/-! ## item lists -/

/-- the rendering of the list is empty or begins with a character `trim_start` keeps -/
def startsSolid : List Item → Bool
  | [] => true
  | .lit c :: _ => !isWs c
  | .nano k :: _ => k == 3 || k == 6
  | .space :: _ | .tzName :: _ | .bad :: _ => false
  | _ :: _ => true

/-- the shape the round trip needs: a space is followed by something solid, `%s` and `%#z` come last
(they read to the end / accept the bare `±HH`), fractions are `%3f` / `%6f`, no `%Z`, nothing unknown -/
def scannable : List Item → Bool
  | [] => true
  | .space :: r => startsSolid r && scannable r
  | .timestamp :: r => r.isEmpty
  | .tz true :: r => r.isEmpty
  | .nano k :: r => (k == 3 || k == 6) && scannable r
  | .tzName :: _ | .bad :: _ => false
  | _ :: r => scannable r

theorem pad_head (k n : Nat) (hk : 1 ≤ k) : ∃ c t, pad k n = c :: t ∧ isDig c = true := by
  obtain ⟨c, t, e⟩ := List.exists_cons_of_ne_nil (pad_ne_nil k n hk)
  exact ⟨c, t, e, pad_digits k n c (by simp [e])⟩

theorem renderZone_head (f : Fields) (hf : f.Valid) : ∃ c t, renderZone f = c :: t ∧ isWs c = false := by
  cases h : f.zstyle <;> simp only [renderZone, h]
  · exact ⟨_, _, rfl, isWs_sign _ hf.zsign⟩
  · exact ⟨_, _, rfl, isWs_sign _ hf.zsign⟩
  · exact ⟨_, _, rfl, isWs_sign _ hf.zsign⟩
  · exact ⟨_, _, rfl, by decide⟩
  · exact ⟨_, _, rfl, by decide⟩

theorem renderItem_head (f : Fields) (hf : f.Valid) (it : Item) (r : List Item) (h : startsSolid (it :: r) = true) :
    ∃ c t, renderItem f it = c :: t ∧ isWs c = false := by
  have dig : ∀ k n, 1 ≤ k → ∃ c t, pad k n = c :: t ∧ isWs c = false := by
    intro k n hk
    obtain ⟨c, t, e, hc⟩ := pad_head k n hk
    exact ⟨c, t, e, isWs_of_isDig hc⟩
  cases it with
  | lit c => exact ⟨c, [], rfl, by simpa [startsSolid] using h⟩
  | space => simp [startsSolid] at h
  | tzName => simp [startsSolid] at h
  | bad => simp [startsSolid] at h
  | year => exact dig 4 _ (by decide)
  | month => exact dig 2 _ (by decide)
  | day => exact dig 2 _ (by decide)
  | hour => exact dig 2 _ (by decide)
  | minute => exact dig 2 _ (by decide)
  | second => exact dig 2 _ (by decide)
  | nano k =>
    simp only [startsSolid, Bool.or_eq_true, beq_iff_eq] at h
    exact dig k _ (by omega)
  | timestamp =>
    obtain ⟨c, t, e⟩ := List.exists_cons_of_ne_nil hf.ts_ne
    exact ⟨c, t, e, isWs_of_isDig (hf.ts_dig c (by simp [e]))⟩
  | tz perm => exact renderZone_head f hf

theorem trimStart_renderItems (f : Fields) (hf : f.Valid) (its : List Item) (h : startsSolid its = true) :
    trimStart (renderItems f its) = renderItems f its := by
  cases its with
  | nil => rfl
  | cons it r =>
    obtain ⟨c, t, e, hc⟩ := renderItem_head f hf it r h
    simp only [renderItems, e, List.cons_append]
    exact trimStart_of_head _ _ hc

theorem restOk_of_scannable (f : Fields) (hf : f.Valid) (it : Item) (r : List Item) (h : scannable (it :: r) = true) :
    RestOk it (renderItems f r) ∧ scannable r = true := by
  cases it with
  | lit c => exact ⟨.lit _ _, h⟩
  | space =>
    simp only [scannable, Bool.and_eq_true] at h
    exact ⟨.space _ (trimStart_renderItems f hf r h.1), h.2⟩
  | year => exact ⟨.year _, h⟩
  | month => exact ⟨.month _, h⟩
  | day => exact ⟨.day _, h⟩
  | hour => exact ⟨.hour _, h⟩
  | minute => exact ⟨.minute _, h⟩
  | second => exact ⟨.second _, h⟩
  | timestamp =>
    simp only [scannable, List.isEmpty_iff] at h
    subst h
    exact ⟨.timestamp, rfl⟩
  | nano k =>
    simp only [scannable, Bool.and_eq_true, Bool.or_eq_true, beq_iff_eq] at h
    rcases h.1 with e | e <;> subst e
    · exact ⟨.nano3 _, h.2⟩
    · exact ⟨.nano6 _, h.2⟩
  | tz perm =>
    cases perm with
    | false => exact ⟨.tzStrict _, h⟩
    | true =>
      simp only [scannable, List.isEmpty_iff] at h
      subst h
      exact ⟨.tzPerm, rfl⟩
  | tzName => simp [scannable] at h
  | bad => simp [scannable] at h

theorem sameSlot_comm (i j : Item) : sameSlot i j = sameSlot j i := by
  cases i <;> cases j <;> rfl

theorem parseItems_render (f : Fields) (hf : f.Valid) (its : List Item) (p : Parsed)
    (hsc : scannable its = true) (hst : styleOk f its = true) (hd : distinctSlots its = true)
    (hn : ∀ it ∈ its, getField it p = none) :
    parseItems its (renderItems f its) p = some (applyItems f its p, []) := by
  induction its generalizing p with
  | nil => rfl
  | cons it r ih =>
    obtain ⟨hro, hsr⟩ := restOk_of_scannable f hf it r hsc
    simp only [distinctSlots, Bool.and_eq_true, List.all_eq_true, Bool.not_eq_true'] at hd
    simp only [styleOk, List.all_cons, Bool.and_eq_true] at hst
    have hst1 : it = .tz false → f.zstyle = .compact ∨ f.zstyle = .colon := by
      intro e
      have := hst.1
      simp [e] at this
      exact this
    have h1 := parseItem_render f hf it (renderItems f r) p hst1 hro (hn it (by simp))
    simp only [parseItems, renderItems, h1, Option.bind_some, applyItems]
    apply ih _ hsr hst.2 hd.2
    intro j hj
    rw [getField_applyItem_other f j it p (by rw [sameSlot_comm]; exact hd.1 j hj)]
    exact hn j (by simp [hj])

theorem getField_empty (it : Item) : getField it {} = none := by cases it <;> rfl

/-- chrono's `parse` on a rendered value: everything is consumed and every field holds what was written -/
theorem strptime_render (f : Fields) (hf : f.Valid) (pat : List Char)
    (hsc : scannable (parsePattern pat) = true) (hst : styleOk f (parsePattern pat) = true)
    (hd : distinctSlots (parsePattern pat) = true) :
    strptimeCliL pat (renderItems f (parsePattern pat)) = some (applyItems f (parsePattern pat) {}) := by
  simp [strptimeCliL, parseItems_render f hf _ {} hsc hst hd (fun it _ => getField_empty it)]

/-! ## resolution of the parsed fields -/

/-- the documented reading of civil fields at offset `off`: the second `60` is the leap-second
reading, stored (as chrono stores it) as `:59` plus a fraction `≥ 10^9` -/
def civilDT (y m d h mi s nano : Nat) (off : Int) : DT :=
  ⟨epochSeconds y m d h mi ((if s = 60 then 59 else s : Nat) : Int) off, (if s = 60 then 1000000000 else 0) + nano, off⟩

/-- `civilDT` is the instant `y-m-d h:mi:s.nano` at offset `off` (also for `s = 60`) -/
theorem civilDT_ns (y m d h mi s nano : Nat) (off : Int) :
    (civilDT y m d h mi s nano off).ns = instantNs y m d h mi s nano off := by
  unfold civilDT DT.ns instantNs epochSeconds
  by_cases hs : s = 60
  · subst hs; simp only [if_true]; omega
  · simp only [hs, if_false]; omega

theorem daysFromCivil_bounds (y m d : Int) (hy0 : 0 ≤ y) (hy1 : y ≤ 9999) (hm0 : 1 ≤ m) (hm1 : m ≤ 12)
    (hd0 : 1 ≤ d) (hd1 : d ≤ 31) : -719528 ≤ daysFromCivil y m d ∧ daysFromCivil y m d ≤ 2932927 := by
  rw [S4V.Lemmas.Time.daysFromCivil_closed y m d hm0 hm1]
  have hb : 0 ≤ S4V.Lemmas.Time.daysBeforeMonth y m ∧ S4V.Lemmas.Time.daysBeforeMonth y m ≤ 335 := by
    unfold S4V.Lemmas.Time.daysBeforeMonth
    have : m = 1 ∨ m = 2 ∨ m = 3 ∨ m = 4 ∨ m = 5 ∨ m = 6 ∨ m = 7 ∨ m = 8 ∨ m = 9 ∨ m = 10 ∨
        m = 11 ∨ m = 12 := by omega
    rcases this with h | h | h | h | h | h | h | h | h | h | h | h <;> subst h <;>
      simp <;> (try split) <;> omega
  unfold S4V.Lemmas.Time.jan1
  omega

theorem inRange_of_bounds (x : Int) (h0 : -62170000000 ≤ x) (h1 : x ≤ 8210266876799) : inRange x = true := by
  have a : minSec ≤ -62170000000 := by decide
  have b : (8210266876799 : Int) ≤ maxSec := by decide
  simp [inRange]; omega

theorem validDate_bounds (y m d : Int) (h : validDate y m d = true) : 1 ≤ m ∧ m ≤ 12 ∧ 1 ≤ d ∧ d ≤ 31 := by
  have hdim : daysInMonth y m ≤ 31 := by unfold daysInMonth; split <;> split <;> decide
  simp only [validDate, Bool.and_eq_true, decide_eq_true_eq] at h
  omega

theorem toNaive_civil (P : Parsed) (y m d h mi s : Nat) (nano : Option Nat) (o : Int)
    (hY : P.year = some (y : Int)) (hM : P.month = some (m : Int)) (hD : P.day = some (d : Int))
    (hH : P.hour = some (h : Int)) (hMi : P.minute = some (mi : Int)) (hS : P.second = some (s : Int))
    (hN : P.nano = nano.map fun n => (n : Int)) (hT : P.timestamp = none)
    (hy : y ≤ 9999) (hv : validDate y m d = true) (hh : h ≤ 23) (hmi : mi ≤ 59) (hs : s ≤ 60)
    (hn : ∀ n, nano = some n → n ≤ 999999999) :
    toNaive P o = some (daysFromCivil y m d * 86400 + ((h : Int) * 3600 + (mi : Int) * 60 + ((if s = 60 then 59 else s : Nat) : Int)),
      (if s = 60 then 1000000000 else 0) + nano.getD 0) := by
  obtain ⟨hm0, hm1, _, _⟩ := validDate_bounds y m d hv
  have hdate : toNaiveDate P = some (daysFromCivil y m d) := by
    have c1 : (decide (minYear ≤ (y : Int)) && decide ((y : Int) ≤ maxYear) && validDate y m d) = true := by
      have a : minYear ≤ (y : Int) := by unfold minYear; omega
      have b : (y : Int) ≤ maxYear := by unfold maxYear; omega
      simp [a, b, hv]
    simp only [toNaiveDate, hY, hM, hD, c1, if_true]
    rw [civilDays_eq y m d (by omega) hm0 hm1]
  have c2 : (decide ((0 : Int) ≤ (h : Int)) && decide ((h : Int) ≤ 23) && decide ((0 : Int) ≤ (mi : Int)) && decide ((mi : Int) ≤ 59)) = true := by
    simp; omega
  have c3 : (decide ((0 : Int) ≤ (s : Int)) && decide ((s : Int) ≤ 60)) = true := by
    simp; omega
  have htime : toNaiveTime P = some ((h : Int) * 3600 + (mi : Int) * 60 + ((if s = 60 then 59 else s : Nat) : Int),
      (if s = 60 then 1000000000 else 0) + nano.getD 0) := by
    cases nano with
    | none =>
      change P.nano = none at hN
      simp only [toNaiveTime, hH, hMi, hS, hN, Option.getD_some, c2, c3, if_true]
      by_cases e : s = 60
      · subst e; simp
      · have e' : ¬ ((s : Int) = 60) := by omega
        simp [e, e']
    | some n =>
      change P.nano = some (n : Int) at hN
      have hn' := hn n rfl
      have c4 : ((some (s : Int)).isSome && decide ((0 : Int) ≤ (n : Int)) && decide ((n : Int) ≤ 999999999)) = true := by
        simp; omega
      simp only [toNaiveTime, hH, hMi, hS, hN, Option.getD_some, c2, c3, c4, if_true, Int.toNat_natCast]
      by_cases e : s = 60
      · subst e; simp
      · have e' : ¬ ((s : Int) = 60) := by omega
        simp [e, e']
  simp only [toNaive, hdate, htime, hT]

/-! ## the Issue-660 white-space comparison -/

/-- the four characters `datetime_from_str_workaround_Issue660` counts -/
def ws4 (c : Char) : Bool := c == ' ' || c == '\t' || c == '\n' || c == '\r'

/-- a pattern with no leading / trailing run of the four characters -/
def patEdgeOk (pat : List Char) : Bool :=
  wsCounts pat == (0, 0, 0) && (if allWs3 pat then (0, 0, 0) else wsCounts pat.reverse) == (0, 0, 0)

theorem wsCounts_head (c : Char) (r : List Char) (h : ws4 c = false) : wsCounts (c :: r) = (0, 0, 0) := by
  have : (c == ' ' || c == '\t' || c == '\n' || c == '\r') = false := h
  simp [wsCounts, List.takeWhile, this]

theorem issue660_solid (v pat : List Char) (c l : Char) (r A : List Char) (h1 : v = c :: r) (hc : ws4 c = false)
    (h2 : v = A ++ [l]) (hl : ws4 l = false) (hp : patEdgeOk pat = true) : issue660 v pat = true := by
  simp only [patEdgeOk, Bool.and_eq_true, beq_iff_eq] at hp
  have a1 : wsCounts v = (0, 0, 0) := by rw [h1]; exact wsCounts_head c r hc
  have a2 : allWs3 v = false := by
    have : (c == ' ' || c == '\t' || c == '\n' || c == '\r') = false := hc
    rw [h1]; simp [allWs3, this]
  have a3 : wsCounts v.reverse = (0, 0, 0) := by
    rw [h2, List.reverse_append]; exact wsCounts_head l _ hl
  simp only [issue660, a1, a2, a3, hp.1, hp.2]
  simp

/-- an item whose text is non-empty and free of the four characters -/
def solid4 : Item → Bool
  | .lit c => !ws4 c
  | .nano k => k == 3 || k == 6
  | .space | .tzName | .bad => false
  | _ => true

theorem ws4_of_isDig {c : Char} (h : isDig c = true) : ws4 c = false := by
  have h' := h
  simp only [isDig, Bool.and_eq_true, decide_eq_true_eq] at h'
  have e : ∀ x : Char, x.toNat < 48 → (c == x) = false := by
    intro x hx
    simp only [beq_eq_false_iff_ne, ne_eq]
    intro e; subst e; omega
  simp [ws4, e ' ' (by decide), e '\t' (by decide), e '\n' (by decide), e '\r' (by decide)]

theorem renderZone_solid (f : Fields) (hf : f.Valid) : renderZone f ≠ [] ∧ ∀ c ∈ renderZone f, ws4 c = false := by
  have hsg : ws4 f.zsign = false := by rcases hf.zsign with h | h | h <;> rw [h] <;> decide
  have d2 : ∀ n, ∀ c ∈ pad 2 n, ws4 c = false := fun n c hc => ws4_of_isDig (pad_digits 2 n c hc)
  cases h : f.zstyle <;> simp only [renderZone, h] <;> refine ⟨by simp, ?_⟩ <;> intro c hc <;>
    simp only [List.mem_cons, List.mem_append, List.not_mem_nil, or_false] at hc
  · rcases hc with e | e | e
    · rw [e]; exact hsg
    · exact d2 _ c e
    · exact d2 _ c e
  · rcases hc with e | e | e | e
    · rw [e]; exact hsg
    · exact d2 _ c e
    · rw [e]; decide
    · exact d2 _ c e
  · rcases hc with e | e
    · rw [e]; exact hsg
    · exact d2 _ c e
  · rw [hc]; decide
  · rw [hc]; decide

theorem renderItem_solid (f : Fields) (hf : f.Valid) (it : Item) (h : solid4 it = true) :
    renderItem f it ≠ [] ∧ ∀ c ∈ renderItem f it, ws4 c = false := by
  have dig : ∀ k n, 1 ≤ k → pad k n ≠ [] ∧ ∀ c ∈ pad k n, ws4 c = false :=
    fun k n hk => ⟨pad_ne_nil k n hk, fun c hc => ws4_of_isDig (pad_digits k n c hc)⟩
  cases it with
  | lit c =>
    refine ⟨by simp [renderItem], ?_⟩
    intro x hx
    simp only [renderItem, List.mem_singleton] at hx
    subst hx
    simpa [solid4] using h
  | space => simp [solid4] at h
  | tzName => simp [solid4] at h
  | bad => simp [solid4] at h
  | year => exact dig 4 _ (by decide)
  | month => exact dig 2 _ (by decide)
  | day => exact dig 2 _ (by decide)
  | hour => exact dig 2 _ (by decide)
  | minute => exact dig 2 _ (by decide)
  | second => exact dig 2 _ (by decide)
  | nano k =>
    simp only [solid4, Bool.or_eq_true, beq_iff_eq] at h
    exact dig k _ (by omega)
  | timestamp => exact ⟨hf.ts_ne, fun c hc => ws4_of_isDig (hf.ts_dig c hc)⟩
  | tz perm => exact renderZone_solid f hf

/-- first and last item solid -/
def edgesSolid (its : List Item) : Bool := its.head?.any solid4 && its.getLast?.any solid4

theorem renderItems_edges (f : Fields) (hf : f.Valid) (its : List Item) (h : edgesSolid its = true) :
    (∃ c r, renderItems f its = c :: r ∧ ws4 c = false) ∧ (∃ A l, renderItems f its = A ++ [l] ∧ ws4 l = false) := by
  simp only [edgesSolid, Bool.and_eq_true, Option.any_eq_true] at h
  obtain ⟨⟨a, ha, sa⟩, ⟨b, hb, sb⟩⟩ := h
  constructor
  · cases its with
    | nil => simp at ha
    | cons x xs =>
      simp only [List.head?_cons, Option.some.injEq] at ha
      subst ha
      obtain ⟨hne, hall⟩ := renderItem_solid f hf x sa
      obtain ⟨c, t, e⟩ := List.exists_cons_of_ne_nil hne
      exact ⟨c, t ++ renderItems f xs, by simp [renderItems, e], hall c (by simp [e])⟩
  · obtain ⟨pre, e1⟩ := List.getLast?_eq_some_iff.mp hb
    obtain ⟨hne, hall⟩ := renderItem_solid f hf b sb
    have e2 : (renderItem f b).dropLast ++ [(renderItem f b).getLast hne] = renderItem f b :=
      List.dropLast_concat_getLast hne
    refine ⟨renderItems f pre ++ (renderItem f b).dropLast, (renderItem f b).getLast hne, ?_,
      hall _ (List.getLast_mem hne)⟩
    rw [e1, renderItems_append, List.append_assoc, e2]
    simp [renderItems]

theorem issue660_render (f : Fields) (hf : f.Valid) (its : List Item) (pat : List Char)
    (he : edgesSolid its = true) (hp : patEdgeOk pat = true) : issue660 (renderItems f its) pat = true := by
  obtain ⟨⟨c, r, e1, hc⟩, ⟨A, l, e2, hl⟩⟩ := renderItems_edges f hf its he
  exact issue660_solid _ pat c l r A e1 hc e2 hl hp

/-! ## `datetime_parse_from_str` on a rendered civil value -/

def hasZone (its : List Item) : Bool := its.contains (.tz false) || its.contains (.tz true)

def nanoOpt (f : Fields) (its : List Item) : Option Nat :=
  if its.contains (.nano 3) then some (f.milli * 1000000)
  else if its.contains (.nano 6) then some (f.micro * 1000) else none

/-- what a value rendered through `its` denotes: the civil fields, the fraction the pattern carries,
at the written zone if the pattern has one, else at `tz` -/
def denoteItems (its : List Item) (f : Fields) (tz : Int) : DT :=
  civilDT f.year f.month f.day f.hour f.minute f.second ((nanoOpt f its).getD 0)
    (if hasZone its then f.zoneOff else tz)

/-- decidable shape of a full date-time pattern -/
def civilOk (its : List Item) (hasTz : Bool) : Bool :=
  scannable its && distinctSlots its && edgesSolid its &&
  its.contains .year && its.contains .month && its.contains .day &&
  its.contains .hour && its.contains .minute && its.contains .second &&
  !its.contains .timestamp && (hasTz == hasZone its)

theorem nano_of_scannable (f : Fields) (hf : f.Valid) (its : List Item) (h : scannable its = true) (k : Nat)
    (hk : Item.nano k ∈ its) : k = 3 ∨ k = 6 := by
  induction its with
  | nil => simp at hk
  | cons it r ih =>
    rcases List.mem_cons.mp hk with e | hk'
    · subst e
      simp only [scannable, Bool.and_eq_true, Bool.or_eq_true, beq_iff_eq] at h
      exact h.1
    · exact ih (restOk_of_scannable f hf it r h).2 hk'

theorem zoneOff_bounds (f : Fields) (hf : f.Valid) : -86400 < f.zoneOff ∧ f.zoneOff < 86400 := by
  have := hf.zh
  have := hf.zm
  unfold Fields.zoneOff
  by_cases hp : f.zsign = '+' <;> cases f.zstyle <;> simp only [hp, if_true, if_false] <;> omega

theorem dtParse_civil (f : Fields) (hf : f.Valid) (pat : List Char) (hasTz : Bool) (tz : Int)
    (htz : -86400 < tz ∧ tz < 86400)
    (hok : civilOk (parsePattern pat) hasTz = true) (hst : styleOk f (parsePattern pat) = true)
    (hp : patEdgeOk pat = true) :
    datetimeParseFromStr (renderItems f (parsePattern pat)) pat hasTz tz =
      some (denoteItems (parsePattern pat) f tz) := by
  simp only [civilOk, Bool.and_eq_true, Bool.not_eq_true', beq_iff_eq, List.contains_iff_mem] at hok
  obtain ⟨⟨⟨⟨⟨⟨⟨⟨⟨⟨hsc, hd⟩, hedge⟩, mY⟩, mM⟩, mD⟩, mH⟩, mMi⟩, mS⟩, mT⟩, hz⟩ := hok
  have hstr := strptime_render f hf pat hsc hst hd
  have h660 := issue660_render f hf _ pat hedge hp
  generalize parsePattern pat = its at *
  generalize hP : applyItems f its {} = P at hstr
  have hY : P.year = some (f.year : Int) := by rw [← hP]; exact getField_applyItems_mem f .year its {} rfl mY hd
  have hM : P.month = some (f.month : Int) := by rw [← hP]; exact getField_applyItems_mem f .month its {} rfl mM hd
  have hD : P.day = some (f.day : Int) := by rw [← hP]; exact getField_applyItems_mem f .day its {} rfl mD hd
  have hH : P.hour = some (f.hour : Int) := by rw [← hP]; exact getField_applyItems_mem f .hour its {} rfl mH hd
  have hMi : P.minute = some (f.minute : Int) := by rw [← hP]; exact getField_applyItems_mem f .minute its {} rfl mMi hd
  have hS : P.second = some (f.second : Int) := by rw [← hP]; exact getField_applyItems_mem f .second its {} rfl mS hd
  have hT : P.timestamp = none := by
    rw [← hP]
    refine getField_applyItems_absent f .timestamp its {} ?_
    intro j hj
    cases j <;> first | rfl | (exfalso; simp at mT; exact mT hj)
  have hN : P.nano = (nanoOpt f its).map fun n => (n : Int) := by
    rw [← hP]
    unfold nanoOpt
    by_cases h3 : Item.nano 3 ∈ its
    · have := getField_applyItems_mem f (.nano 3) its {} rfl h3 hd
      simp only [List.contains_iff_mem, h3, if_true]
      exact this
    · by_cases h6 : Item.nano 6 ∈ its
      · have := getField_applyItems_mem f (.nano 6) its {} rfl h6 hd
        simp only [List.contains_iff_mem, h3, h6, if_true, if_false]
        exact this
      · simp only [List.contains_iff_mem, h3, h6, if_false]
        refine getField_applyItems_absent f (.nano 3) its {} ?_
        intro j hj
        cases j <;> first | rfl | skip
        rename_i k
        rcases nano_of_scannable f hf its hsc k hj with e | e <;> subst e
        · exact absurd hj h3
        · exact absurd hj h6
  have hnb : ∀ n, nanoOpt f its = some n → n ≤ 999999999 := by
    intro n hn
    have := hf.milli
    have := hf.micro
    unfold nanoOpt at hn
    split at hn
    · injection hn with hn; omega
    · split at hn
      · injection hn with hn; omega
      · cases hn
  obtain ⟨hm0, hm1, hd0, hd1⟩ := validDate_bounds f.year f.month f.day hf.date
  have hdb := daysFromCivil_bounds f.year f.month f.day (by omega) (by have := hf.year; omega) hm0 hm1 hd0 hd1
  have hnaive := fun o => toNaive_civil P f.year f.month f.day f.hour f.minute f.second (nanoOpt f its) o
    hY hM hD hH hMi hS hN hT hf.year hf.date hf.hour hf.minute hf.second hnb
  have hsod : (0 : Int) ≤ (f.hour : Int) * 3600 + (f.minute : Int) * 60 + ((if f.second = 60 then 59 else f.second : Nat) : Int) ∧
      (f.hour : Int) * 3600 + (f.minute : Int) * 60 + ((if f.second = 60 then 59 else f.second : Nat) : Int) ≤ 86399 := by
    have := hf.hour
    have := hf.minute
    have := hf.second
    split <;> omega
  unfold datetimeParseFromStr
  rw [hstr]
  simp only []
  cases hasTz with
  | true =>
    have hz' : hasZone its = true := hz.symm
    have hO : P.offset = some f.zoneOff := by
      rw [← hP]
      simp only [hasZone, Bool.or_eq_true, List.contains_iff_mem] at hz'
      rcases hz' with h | h
      · exact getField_applyItems_mem f (.tz false) its {} rfl h hd
      · exact getField_applyItems_mem f (.tz true) its {} rfl h hd
    obtain ⟨zb0, zb1⟩ := zoneOff_bounds f hf
    have hin := inRange_of_bounds (daysFromCivil f.year f.month f.day * 86400 +
      ((f.hour : Int) * 3600 + (f.minute : Int) * 60 + ((if f.second = 60 then 59 else f.second : Nat) : Int)) - f.zoneOff)
      (by omega) (by omega)
    have c : (decide (-86400 < f.zoneOff) && decide (f.zoneOff < 86400)) = true := by simp [zb0, zb1]
    simp only [if_true, hO, hnaive, c, hin, h660, Bool.and_self]
    simp only [denoteItems, civilDT, epochSeconds, hz', if_true, Option.some.injEq, DT.mk.injEq, and_true]
    omega
  | false =>
    have hz' : hasZone its = false := hz.symm
    have hin := inRange_of_bounds (daysFromCivil f.year f.month f.day * 86400 +
      ((f.hour : Int) * 3600 + (f.minute : Int) * 60 + ((if f.second = 60 then 59 else f.second : Nat) : Int)) - tz)
      (by omega) (by omega)
    simp only [Bool.false_eq_true, if_false, hnaive, hin, h660, Bool.and_self, if_true]
    simp only [denoteItems, civilDT, epochSeconds, hz', Bool.false_eq_true, if_false, Option.some.injEq, DT.mk.injEq, and_true]
    omega

/-! ## `+%s` -/

theorem dtParse_ts (f : Fields) (hf : f.Valid) (pat : List Char) (tz : Int) (htz : -86400 < tz ∧ tz < 86400)
    (hits : parsePattern pat = [.lit '+', .timestamp]) (hp : patEdgeOk pat = true) :
    datetimeParseFromStr (renderItems f [.lit '+', .timestamp]) pat false tz =
      some ⟨(numVal f.ts : Int) - tz, 0, tz⟩ := by
  have hstr := strptime_render f hf pat (by rw [hits]; rfl) (by rw [hits]; rfl) (by rw [hits]; rfl)
  have h660 := issue660_render f hf [.lit '+', .timestamp] pat (by decide) hp
  rw [hits] at hstr
  have hle := hf.ts_le
  unfold tsMax at hle
  have hin1 := inRange_of_bounds ((numVal f.ts : Int) + 0) (by omega) (by omega)
  have hin2 := inRange_of_bounds ((numVal f.ts : Int) + 0 - tz) (by omega) (by omega)
  unfold datetimeParseFromStr
  rw [hstr]
  simp only [Bool.false_eq_true, if_false, toNaive, toNaiveDate, toNaiveTime, applyItems, applyItem, valueOf,
    Parsed.noCivil, Option.isNone_none, Bool.and_self, hin1, hin2, h660, if_true]
  simp

/-! ## the rows: zone names, the appended midnight -/

def isZoneItem : Item → Bool
  | .tz _ | .tzName => true
  | _ => false

def isClockItem : Item → Bool
  | .hour | .minute | .second => true
  | _ => false

/-- an item whose text is non-empty and has no letter -/
def nonAlphaItem : Item → Bool
  | .space => true
  | .lit c => !isAlpha c
  | .year | .month | .day | .hour | .minute | .second => true
  | .nano k => k == 3 || k == 6
  | _ => false

/-- the items of `appendTimePattern` -/
def timeTail : List Item := [.space, .lit 'T', .hour, .minute, .second]

/-- the items of the pattern `process_dt` hands on: `%Z` becomes `%z`, a date-only row gets the time -/
def effItems (row : Row) : List Item :=
  (if row.hasTzZ then (parsePattern row.pattern.toList).dropLast ++ [.tz false] else parsePattern row.pattern.toList) ++
    (if row.hasTime then [] else timeTail)

/-- the zone a name stands for, as fields -/
def namedZone (row : Row) (f : Fields) : Option (Char × Nat × Nat) :=
  if row.hasTzZ then (lookupTz f.zname).bind fun z => zoneText z.toList else none

/-- the fields of the value `process_dt` hands on: the name's zone written `±HH:MM`, midnight for a bare date -/
def effFields (row : Row) (f : Fields) : Fields :=
  { f with
    hour := if row.hasTime then f.hour else 0
    minute := if row.hasTime then f.minute else 0
    second := if row.hasTime then f.second else 0
    zsign := match namedZone row f with | some (sg, _, _) => sg | none => f.zsign
    zh := match namedZone row f with | some (_, hh, _) => hh | none => f.zh
    zm := match namedZone row f with | some (_, _, mm) => mm | none => f.zm
    zstyle := match namedZone row f with | some _ => .colon | none => f.zstyle }

/-- one entry of the generated zone-name table: the name is letters, the offset text is empty
(ambiguous) or `±HH:MM` with `HH ≤ 23`, `MM ≤ 59` -/
def tzEntryOk (kv : String × String) : Bool :=
  kv.1.toList.all isAlpha &&
  (kv.2 == "" ||
    match zoneText kv.2.toList with
    | some (sg, hh, mm) => hh ≤ 23 && mm ≤ 59 && kv.2.toList == sg :: (pad 2 hh ++ ':' :: pad 2 mm)
    | none => false)

/-- table fact (generated `MAP_TZZ_TO_TZz` unfolded) -/
theorem tzTable_ok : tzTable.all tzEntryOk = true := by decide +kernel

theorem lookupTz_spec (name : List Char) (z : String) (h : lookupTz name = some z) (hz : z ≠ "") :
    (∀ c ∈ name, isAlpha c = true) ∧
    ∃ sg hh mm, zoneText z.toList = some (sg, hh, mm) ∧ (sg = '+' ∨ sg = '-') ∧ hh ≤ 23 ∧ mm ≤ 59 ∧
      z.toList = sg :: (pad 2 hh ++ ':' :: pad 2 mm) := by
  unfold lookupTz at h
  cases hfind : tzTable.find? (fun kv => kv.1.toList == name) with
  | none => simp [hfind] at h
  | some kv =>
    simp only [hfind, Option.map_some, Option.some.injEq] at h
    have hmem := List.mem_of_find?_eq_some hfind
    have hkey := List.find?_some hfind
    have hok := List.all_eq_true.mp tzTable_ok kv hmem
    simp only [beq_iff_eq] at hkey
    simp only [tzEntryOk, Bool.and_eq_true, List.all_eq_true, Bool.or_eq_true, beq_iff_eq] at hok
    obtain ⟨hal, hv⟩ := hok
    rw [h] at hv
    refine ⟨fun c hc => hal c (by rw [hkey]; exact hc), ?_⟩
    rcases hv with hv | hv
    · exact absurd hv hz
    · cases hzt : zoneText z.toList with
      | none => simp [hzt] at hv
      | some t =>
        obtain ⟨sg, hh, mm⟩ := t
        simp only [hzt, Bool.and_eq_true, decide_eq_true_eq, beq_iff_eq] at hv
        refine ⟨sg, hh, mm, rfl, ?_, hv.1.1, hv.1.2, hv.2⟩
        unfold zoneText at hzt
        split at hzt
        · split at hzt
          · rename_i hc
            injection hzt with hzt
            injection hzt with e1 _
            rw [← e1]; exact hc.1
          · cases hzt
        · cases hzt

theorem splitAlphaTail_append (A0 name : List Char) (l : Char) (hl : isAlpha l = false)
    (hn : ∀ c ∈ name, isAlpha c = true) :
    splitAlphaTail ((A0 ++ [l]) ++ name) = (A0 ++ [l], name) := by
  have hrev : ∀ c ∈ name.reverse, isAlpha c = true := fun c hc => hn c (List.mem_reverse.mp hc)
  have e : ((A0 ++ [l]) ++ name).reverse = name.reverse ++ (l :: A0.reverse) := by simp
  simp only [splitAlphaTail, e, List.dropWhile_append_of_pos hrev, List.takeWhile_append_of_pos hrev]
  simp [List.dropWhile, List.takeWhile, hl]

theorem isAlpha_of_isDig {c : Char} (h : isDig c = true) : isAlpha c = false := by
  simp only [isDig, Bool.and_eq_true, decide_eq_true_eq] at h
  simp [isAlpha]; omega

theorem renderItem_nonAlpha (f : Fields) (it : Item) (h : nonAlphaItem it = true) :
    renderItem f it ≠ [] ∧ ∀ c ∈ renderItem f it, isAlpha c = false := by
  have dig : ∀ k n, 1 ≤ k → pad k n ≠ [] ∧ ∀ c ∈ pad k n, isAlpha c = false :=
    fun k n hk => ⟨pad_ne_nil k n hk, fun c hc => isAlpha_of_isDig (pad_digits k n c hc)⟩
  cases it with
  | lit c =>
    refine ⟨by simp [renderItem], ?_⟩
    intro x hx
    simp only [renderItem, List.mem_singleton] at hx
    subst hx
    simpa [nonAlphaItem] using h
  | space =>
    refine ⟨by simp [renderItem], ?_⟩
    intro x hx
    simp only [renderItem, List.mem_singleton] at hx
    subst hx; decide
  | tzName => simp [nonAlphaItem] at h
  | bad => simp [nonAlphaItem] at h
  | timestamp => simp [nonAlphaItem] at h
  | tz perm => simp [nonAlphaItem] at h
  | year => exact dig 4 _ (by decide)
  | month => exact dig 2 _ (by decide)
  | day => exact dig 2 _ (by decide)
  | hour => exact dig 2 _ (by decide)
  | minute => exact dig 2 _ (by decide)
  | second => exact dig 2 _ (by decide)
  | nano k =>
    simp only [nonAlphaItem, Bool.or_eq_true, beq_iff_eq] at h
    exact dig k _ (by omega)

theorem renderItems_endsNonAlpha (f : Fields) (its : List Item) (h : its.getLast?.any nonAlphaItem = true) :
    ∃ A0 l, renderItems f its = A0 ++ [l] ∧ isAlpha l = false := by
  simp only [Option.any_eq_true] at h
  obtain ⟨b, hb, sb⟩ := h
  obtain ⟨pre, e1⟩ := List.getLast?_eq_some_iff.mp hb
  obtain ⟨hne, hall⟩ := renderItem_nonAlpha f b sb
  have e2 : (renderItem f b).dropLast ++ [(renderItem f b).getLast hne] = renderItem f b :=
    List.dropLast_concat_getLast hne
  refine ⟨renderItems f pre ++ (renderItem f b).dropLast, (renderItem f b).getLast hne, ?_,
    hall _ (List.getLast_mem hne)⟩
  rw [e1, renderItems_append, List.append_assoc, e2]
  simp [renderItems]

theorem renderItem_eff (row : Row) (f : Fields) (it : Item)
    (hz : row.hasTzZ = false ∨ isZoneItem it = false) (hc : row.hasTime = true ∨ isClockItem it = false) :
    renderItem (effFields row f) it = renderItem f it := by
  have hzone : row.hasTzZ = false → renderZone (effFields row f) = renderZone f := by
    intro h
    simp [renderZone, effFields, namedZone, h]
  cases it with
  | tz perm =>
    rcases hz with h | h
    · exact hzone h
    · simp [isZoneItem] at h
  | hour =>
    rcases hc with h | h
    · simp [renderItem, effFields, h]
    · simp [isClockItem] at h
  | minute =>
    rcases hc with h | h
    · simp [renderItem, effFields, h]
    · simp [isClockItem] at h
  | second =>
    rcases hc with h | h
    · simp [renderItem, effFields, h]
    · simp [isClockItem] at h
  | _ => rfl

theorem renderItems_eff (row : Row) (f : Fields) (its : List Item)
    (hz : row.hasTzZ = false ∨ its.all (fun it => !isZoneItem it) = true)
    (hc : row.hasTime = true ∨ its.all (fun it => !isClockItem it) = true) :
    renderItems (effFields row f) its = renderItems f its := by
  induction its with
  | nil => rfl
  | cons it r ih =>
    have hz1 : row.hasTzZ = false ∨ isZoneItem it = false := by
      rcases hz with h | h
      · exact Or.inl h
      · simp only [List.all_cons, Bool.and_eq_true, Bool.not_eq_true'] at h; exact Or.inr h.1
    have hc1 : row.hasTime = true ∨ isClockItem it = false := by
      rcases hc with h | h
      · exact Or.inl h
      · simp only [List.all_cons, Bool.and_eq_true, Bool.not_eq_true'] at h; exact Or.inr h.1
    have hz2 : row.hasTzZ = false ∨ r.all (fun it => !isZoneItem it) = true := by
      rcases hz with h | h
      · exact Or.inl h
      · simp only [List.all_cons, Bool.and_eq_true] at h; exact Or.inr h.2
    have hc2 : row.hasTime = true ∨ r.all (fun it => !isClockItem it) = true := by
      rcases hc with h | h
      · exact Or.inl h
      · simp only [List.all_cons, Bool.and_eq_true] at h; exact Or.inr h.2
    simp only [renderItems, renderItem_eff row f it hz1 hc1, ih hz2 hc2]

/-! ## a value of a row, what it denotes, and the per-row condition -/

/-- the text of the fields `f` in the notation of `row` (generic over the row's pattern items) -/
def render (row : Row) (f : Fields) : List Char := renderItems f (parsePattern row.pattern.toList)

/-- the instant the documentation gives `render row f`, from the calendar arithmetic of
`S4V.Model.Time` (not from the interpreter): an explicit zone (numeric or named) wins, a zone-less
value is read at `tz`, a bare date means 00:00:00, `+N` is N seconds read at `tz` -/
def denote (row : Row) (f : Fields) (tz : Int) : DT :=
  let its := parsePattern row.pattern.toList
  if its.contains .timestamp then ⟨(numVal f.ts : Int) - tz, 0, tz⟩
  else
    let off : Int := if hasZone its then f.zoneOff else if its.contains .tzName then nameOff f.zname else tz
    let nano : Nat := (nanoOpt f its).getD 0
    if its.contains .hour then civilDT f.year f.month f.day f.hour f.minute f.second nano off
    else civilDT f.year f.month f.day 0 0 0 nano off

/-- decidable per-row condition, civil rows: the pattern handed on is the expected item list, a `%Z`
is the last item and follows a non-letter, a date-only row names no clock field, the item list has
the shape the round trip needs, and the row's flags say what the items say -/
def RowCivil (row : Row) : Bool :=
  let its := parsePattern row.pattern.toList
  parsePattern (rowPattern row) == effItems row &&
  (if row.hasTzZ then
      its == its.dropLast ++ [.tzName] && its.dropLast.all (fun it => !isZoneItem it) &&
        its.dropLast.getLast?.any nonAlphaItem
    else !its.contains .tzName) &&
  (row.hasTime || (its.all (fun it => !isClockItem it) &&
    appendTimeValue.toList == [' ', 'T', '0', '0', '0', '0', '0', '0'])) &&
  civilOk (effItems row) row.hasTz && patEdgeOk (rowPattern row) &&
  (row.hasTime == its.contains .hour) && !its.contains .timestamp &&
  (its.contains (.nano 3) == (effItems row).contains (.nano 3)) &&
  (its.contains (.nano 6) == (effItems row).contains (.nano 6)) &&
  (hasZone (effItems row) == (hasZone its || row.hasTzZ)) && (its.contains .tzName == row.hasTzZ) &&
  !(row.hasTzZ && hasZone its)

/-- the `+%s` row -/
def RowTs (row : Row) : Bool :=
  parsePattern row.pattern.toList == [.lit '+', .timestamp] &&
  parsePattern (rowPattern row) == [.lit '+', .timestamp] &&
  !row.hasTz && !row.hasTzZ && row.hasTime && patEdgeOk (rowPattern row)

def RowOk (row : Row) : Bool := RowCivil row || RowTs row

theorem effFields_valid (row : Row) (f : Fields) (hf : f.Valid) : (effFields row f).Valid := by
  have hnz : namedZone row f = none ∨
      ∃ sg hh mm, namedZone row f = some (sg, hh, mm) ∧ (sg = '+' ∨ sg = '-') ∧ hh ≤ 23 ∧ mm ≤ 59 := by
    unfold namedZone
    cases row.hasTzZ with
    | false => left; rfl
    | true =>
      obtain ⟨z, hl, hz⟩ := hf.zname
      obtain ⟨_, sg, hh, mm, hzt, hsg, h1, h2, _⟩ := lookupTz_spec f.zname z hl hz
      right
      exact ⟨sg, hh, mm, by simp [hl, hzt], hsg, h1, h2⟩
  refine { year := hf.year, date := hf.date, hour := ?_, minute := ?_, second := ?_, milli := hf.milli,
           micro := hf.micro, zsign := ?_, zh := ?_, zm := ?_, zname := hf.zname, ts_ne := hf.ts_ne,
           ts_dig := hf.ts_dig, ts_le := hf.ts_le }
  · have := hf.hour; simp only [effFields]; split <;> omega
  · have := hf.minute; simp only [effFields]; split <;> omega
  · have := hf.second; simp only [effFields]; split <;> omega
  · rcases hnz with h | ⟨sg, hh, mm, h, hsg, _, _⟩
    · simp only [effFields, h]; exact hf.zsign
    · simp only [effFields, h]
      rcases hsg with e | e
      · exact Or.inl e
      · exact Or.inr (Or.inl e)
  · rcases hnz with h | ⟨sg, hh, mm, h, _, h1, _⟩
    · simp only [effFields, h]; exact hf.zh
    · simp only [effFields, h]; exact h1
  · rcases hnz with h | ⟨sg, hh, mm, h, _, _, h2⟩
    · simp only [effFields, h]; exact hf.zm
    · simp only [effFields, h]; exact h2

/-- `process_dt`'s preparation of the value, on a rendered value: the zone name is replaced by the
table's offset text and the midnight is appended — which is the rendering of the handed-on items -/
theorem rowValue_render (row : Row) (f : Fields) (hf : f.Valid) (hrow : RowCivil row = true) :
    rowValue row (render row f) = some (renderItems (effFields row f) (effItems row)) := by
  simp only [RowCivil, Bool.and_eq_true] at hrow
  obtain ⟨⟨⟨⟨⟨⟨⟨⟨⟨⟨⟨_, hZ⟩, hT⟩, _⟩, _⟩, _⟩, _⟩, _⟩, _⟩, _⟩, _⟩, _⟩ := hrow
  have htail : (if row.hasTime = true then [] else appendTimeValue.toList) =
      renderItems (effFields row f) (if row.hasTime = true then [] else timeTail) := by
    cases ht : row.hasTime with
    | true => rfl
    | false =>
      simp only [ht, Bool.false_or, Bool.and_eq_true, beq_iff_eq] at hT
      simp only [Bool.false_eq_true, if_false, hT.2]
      simp [renderItems, renderItem, timeTail, effFields, ht, pad2, digitChar, digitOf]
  have hclock : row.hasTime = true ∨ (parsePattern row.pattern.toList).all (fun it => !isClockItem it) = true := by
    cases ht : row.hasTime with
    | true => exact Or.inl rfl
    | false =>
      simp only [ht, Bool.false_or, Bool.and_eq_true] at hT
      exact Or.inr hT.1
  unfold rowValue render effItems
  cases hz : row.hasTzZ with
  | false =>
    simp only [Bool.false_eq_true, if_false, Option.map_some, htail, renderItems_append]
    rw [renderItems_eff row f _ (Or.inl hz) hclock]
  | true =>
    simp only [hz, if_true, Bool.and_eq_true, beq_iff_eq] at hZ
    obtain ⟨⟨hshape, hnozone⟩, hlast⟩ := hZ
    obtain ⟨z, hl, hzne⟩ := hf.zname
    obtain ⟨hal, sg, hh, mm, hzt, _, _, _, htext⟩ := lookupTz_spec f.zname z hl hzne
    obtain ⟨A0, l, hA, hlna⟩ := renderItems_endsNonAlpha f _ hlast
    have hclock' : row.hasTime = true ∨ (parsePattern row.pattern.toList).dropLast.all (fun it => !isClockItem it) = true := by
      rcases hclock with h | h
      · exact Or.inl h
      · right
        rw [List.all_eq_true] at h ⊢
        exact fun x hx => h x (List.dropLast_subset _ hx)
    have hv : renderItems f (parsePattern row.pattern.toList) = (A0 ++ [l]) ++ f.zname := by
      rw [hshape, renderItems_append, hA]
      simp [renderItems, renderItem]
    have hzone : renderZone (effFields row f) = z.toList := by
      have hnz : namedZone row f = some (sg, hh, mm) := by simp [namedZone, hz, hl, hzt]
      simp only [renderZone, effFields, hnz]
      exact htext.symm
    rw [hv, splitAlphaTail_append A0 f.zname l hlna hal]
    simp only [hl, if_true, Option.map_some, htail, renderItems_append]
    rw [renderItems_eff row f _ (Or.inr hnozone) hclock', hA]
    simp [renderItems, renderItem, hzone]

theorem namedZone_of_name (row : Row) (f : Fields) (hf : f.Valid) (hz : row.hasTzZ = true) :
    ∃ sg hh mm, namedZone row f = some (sg, hh, mm) ∧
      nameOff f.zname = (if sg = '+' then 1 else -1) * ((hh : Int) * 3600 + (mm : Int) * 60) := by
  obtain ⟨z, hl, hzne⟩ := hf.zname
  obtain ⟨_, sg, hh, mm, hzt, _, _, _, _⟩ := lookupTz_spec f.zname z hl hzne
  exact ⟨sg, hh, mm, by simp [namedZone, hz, hl, hzt], by simp [nameOff, hl, hzt]⟩

theorem styleOk_eff (row : Row) (f : Fields) (hf : f.Valid)
    (hst : styleOk f (parsePattern row.pattern.toList) = true) : styleOk (effFields row f) (effItems row) = true := by
  cases hz : row.hasTzZ with
  | true =>
    obtain ⟨sg, hh, mm, hnz, _⟩ := namedZone_of_name row f hf hz
    have : (effFields row f).zstyle = .colon := by simp only [effFields, hnz]
    simp [styleOk, this]
  | false =>
    have hsty : (effFields row f).zstyle = f.zstyle := by simp [effFields, namedZone, hz]
    have e : ∀ l, styleOk (effFields row f) l = styleOk f l := by intro l; simp only [styleOk, hsty]
    rw [e]
    simp only [effItems, hz, Bool.false_eq_true, if_false]
    unfold styleOk at hst ⊢
    rw [List.all_append, hst]
    cases row.hasTime <;> simp [timeTail]

/-- **the general round trip, civil rows** -/
theorem attemptRow_civil (row : Row) (f : Fields) (hf : f.Valid) (tz : Int) (htz : -86400 < tz ∧ tz < 86400)
    (hrow : RowCivil row = true) (hst : styleOk f (parsePattern row.pattern.toList) = true) :
    attemptRow row (render row f) tz = some (denote row f tz) := by
  have hval := rowValue_render row f hf hrow
  have hsty := styleOk_eff row f hf hst
  simp only [RowCivil, Bool.and_eq_true, beq_iff_eq, Bool.not_eq_true', Bool.and_eq_false_iff] at hrow
  obtain ⟨⟨⟨⟨⟨⟨⟨⟨⟨⟨⟨hpat, _⟩, _⟩, hcivil⟩, hedge⟩, hH⟩, hTs⟩, hn3⟩, hn6⟩, hzz⟩, hname⟩, hnz⟩ := hrow
  have hparse := dtParse_civil (effFields row f) (effFields_valid row f hf) (rowPattern row) row.hasTz tz htz
    (by rw [hpat]; exact hcivil) (by rw [hpat]; exact hsty) hedge
  rw [hpat] at hparse
  unfold attemptRow
  rw [hval]
  simp only [hparse, Option.some.injEq]
  have e1 : nanoOpt (effFields row f) (effItems row) = nanoOpt f (parsePattern row.pattern.toList) := by
    simp only [nanoOpt, ← hn3, ← hn6]; rfl
  unfold denoteItems denote
  simp only [e1, hTs, Bool.false_eq_true, if_false, hzz, hname, ← hH]
  have eclock : civilDT (effFields row f).year (effFields row f).month (effFields row f).day
      (effFields row f).hour (effFields row f).minute (effFields row f).second =
      (if row.hasTime = true then civilDT f.year f.month f.day f.hour f.minute f.second
       else civilDT f.year f.month f.day 0 0 0) := by
    simp only [effFields]
    cases row.hasTime <;> simp
  rw [eclock]
  cases hz : row.hasTzZ with
  | true =>
    obtain ⟨sg, hh, mm, hnzo, hoff⟩ := namedZone_of_name row f hf hz
    have hzf : hasZone (parsePattern row.pattern.toList) = false := by
      rcases hnz with h | h
      · rw [hz] at h; cases h
      · exact h
    have ezo : (effFields row f).zoneOff = nameOff f.zname := by
      rw [hoff]
      simp only [Fields.zoneOff, effFields, hnzo]
    simp only [hzf, Bool.or_true, Bool.false_eq_true, if_true, if_false, ezo]
    cases row.hasTime <;> simp
  | false =>
    have ezo : (effFields row f).zoneOff = f.zoneOff := by
      simp [Fields.zoneOff, effFields, namedZone, hz]
    simp only [Bool.or_false, ezo, Bool.false_eq_true, if_false]
    cases row.hasTime <;> cases hasZone (parsePattern row.pattern.toList) <;> simp

/-- **the general round trip, `+%s`** -/
theorem attemptRow_ts (row : Row) (f : Fields) (hf : f.Valid) (tz : Int) (htz : -86400 < tz ∧ tz < 86400)
    (hrow : RowTs row = true) : attemptRow row (render row f) tz = some (denote row f tz) := by
  simp only [RowTs, Bool.and_eq_true, beq_iff_eq, Bool.not_eq_true'] at hrow
  obtain ⟨⟨⟨⟨⟨hits, hpat⟩, htzf⟩, hzf⟩, htime⟩, hedge⟩ := hrow
  have hparse := dtParse_ts f hf (rowPattern row) tz htz hpat hedge
  unfold attemptRow rowValue render denote
  simp only [hits, hzf, htime, Bool.false_eq_true, if_false, if_true, Option.map_some, List.append_nil, htzf] at hparse ⊢
  rw [hparse]
  simp

/-- **every value of a row satisfying the decidable condition resolves to what it denotes** -/
theorem attemptRow_render (row : Row) (f : Fields) (hf : f.Valid) (tz : Int) (htz : -86400 < tz ∧ tz < 86400)
    (hrow : RowOk row = true) (hst : styleOk f (parsePattern row.pattern.toList) = true) :
    attemptRow row (render row f) tz = some (denote row f tz) := by
  simp only [RowOk, Bool.or_eq_true] at hrow
  rcases hrow with h | h
  · exact attemptRow_civil row f hf tz htz h hst
  · exact attemptRow_ts row f hf tz htz h

/-- table fact: all generated rows satisfy the condition (the generated table is unfolded here) -/
theorem rows_ok : cliFilterPatterns.all RowOk = true := by decide +kernel

/-! ## no steal: an earlier row that cannot read a later row's values -/

/-- how a rendered remainder begins -/
inductive Hd
  | empty
  | digit
  | lit (c : Char)
  deriving DecidableEq, Repr

def HdSat : Hd → List Char → Prop
  | .empty, t => t = []
  | .digit, t => ∃ c r, t = c :: r ∧ isDig c = true
  | .lit c, t => ∃ r, t = c :: r

def hdOf : List Item → Option Hd
  | [] => some .empty
  | .lit c :: _ => some (.lit c)
  | .year :: _ | .month :: _ | .day :: _ | .hour :: _ | .minute :: _ | .second :: _ => some .digit
  | _ => none

def isTwo : Item → Bool
  | .month | .day | .hour | .minute | .second => true
  | _ => false

/-- items that read their own text whatever follows -/
def plain : Item → Bool
  | .lit _ | .year | .month | .day | .hour | .minute | .second => true
  | _ => false

/-- `trim_start` leaves such a text alone -/
def hdNoWs : Hd → Bool
  | .empty => true
  | .digit => true
  | .lit c => !isWs c

/-- such a text does not begin (after `trim_start`) with a digit -/
def hdNoNum : Hd → Bool
  | .empty => true
  | .digit => false
  | .lit c => !isDig c && !isWs c

/-- such a text does not begin with `c` -/
def hdNot (c : Char) : Hd → Bool
  | .empty => true
  | .digit => !isDig c
  | .lit c' => c' != c

/-- `its` cannot consume exactly a text that begins as `h` says -/
def failsOn : List Item → Hd → Bool
  | [], h => h != .empty
  | .space :: r, h => hdNoWs h && failsOn r h
  | .lit c :: _, h => hdNot c h
  | it :: _, h => isTwo it && hdNoNum h

/-- the items `ij` cannot consume exactly any value rendered through `ii`: after a common prefix of
plain items, `ij` fails on (or leaves over) how the rest of `ii` begins -/
def failsPair : List Item → List Item → Bool
  | a :: rj, b :: ri =>
    if a == b && (plain a || (a == .space && startsSolid ri)) then failsPair rj ri
    else match hdOf (b :: ri) with
      | some h => failsOn (a :: rj) h
      | none => false
  | [], ri => match hdOf ri with
    | some h => failsOn [] h
    | none => false
  | a :: rj, [] => failsOn (a :: rj) .empty

theorem hdOf_sat (f : Fields) (ri : List Item) (h : Hd) (e : hdOf ri = some h) : HdSat h (renderItems f ri) := by
  have dig : ∀ k n rest, 1 ≤ k → ∃ c r, pad k n ++ rest = c :: r ∧ isDig c = true := by
    intro k n rest hk
    obtain ⟨c, t, e, hc⟩ := pad_head k n hk
    exact ⟨c, t ++ rest, by simp [e], hc⟩
  cases ri with
  | nil => simp only [hdOf, Option.some.injEq] at e; subst e; rfl
  | cons b r =>
    cases b <;> simp only [hdOf, Option.some.injEq] at e <;> first | cases e | (subst e; skip)
    · exact ⟨_, rfl⟩
    · exact dig 4 _ _ (by decide)
    · exact dig 2 _ _ (by decide)
    · exact dig 2 _ _ (by decide)
    · exact dig 2 _ _ (by decide)
    · exact dig 2 _ _ (by decide)
    · exact dig 2 _ _ (by decide)

theorem scanNumber_nondigit (t : List Char) (mx : Nat) (h : t = [] ∨ ∃ c r, t = c :: r ∧ isDig c = false) :
    scanNumber t 1 mx = none := by
  have : (takeDigits mx t).1 = [] := by
    cases mx with
    | zero => rfl
    | succ n =>
      rcases h with h | ⟨c, r, h, hc⟩
      · subst h; rfl
      · subst h; simp [takeDigits, hc]
  simp [scanNumber, this]

theorem parseItem_two_none (it : Item) (hi : isTwo it = true) (t : List Char) (p : Parsed)
    (h : trimStart t = [] ∨ ∃ c r, trimStart t = c :: r ∧ isDig c = false) : parseItem it t p = none := by
  have := scanNumber_nondigit (trimStart t) 2 h
  cases it <;> simp [isTwo] at hi <;> simp [parseItem, this]

theorem failsOn_sound (its : List Item) (h : Hd) (t : List Char) (hs : HdSat h t) (p : Parsed)
    (hf : failsOn its h = true) : ∀ P, parseItems its t p ≠ some (P, []) := by
  induction its generalizing p with
  | nil =>
    intro P e
    simp only [parseItems, Option.some.injEq, Prod.mk.injEq] at e
    cases h with
    | empty => simp [failsOn] at hf
    | digit => obtain ⟨c, r, ht, _⟩ := hs; rw [ht] at e; cases e.2
    | lit c => obtain ⟨r, ht⟩ := hs; rw [ht] at e; cases e.2
  | cons a r ih =>
    have htrim : hdNoWs h = true → trimStart t = t := by
      intro hh
      cases h with
      | empty => rw [show t = [] from hs]; rfl
      | digit => obtain ⟨c, r, ht, hc⟩ := hs; rw [ht]; exact trimStart_digit c r hc
      | lit c =>
        obtain ⟨r, ht⟩ := hs
        rw [ht]
        exact trimStart_of_head c r (by simpa [hdNoWs] using hh)
    have two : ∀ it, isTwo it = true → failsOn (it :: r) h = true →
        ∀ P, parseItems (it :: r) t p ≠ some (P, []) := by
      intro it hi hfo P
      have hcond : hdNoNum h = true := by
        cases it <;> simp [isTwo] at hi <;> simpa [failsOn, isTwo] using hfo
      have : parseItem it t p = none := by
        apply parseItem_two_none it hi
        cases h with
        | empty => left; rw [show t = [] from hs]; rfl
        | digit => simp [hdNoNum] at hcond
        | lit c =>
          obtain ⟨r', ht⟩ := hs
          simp only [hdNoNum, Bool.and_eq_true, Bool.not_eq_true'] at hcond
          right
          exact ⟨c, r', by rw [ht]; exact trimStart_of_head c r' hcond.2, hcond.1⟩
      simp [parseItems, this]
    cases a with
    | space =>
      simp only [failsOn, Bool.and_eq_true] at hf
      intro P
      simp only [parseItems, parseItem, Option.bind_some, htrim hf.1]
      exact ih p hf.2 P
    | lit c =>
      intro P
      have : parseItem (.lit c) t p = none := by
        cases h with
        | empty => rw [show t = [] from hs]; rfl
        | digit =>
          obtain ⟨c', r', ht, hc'⟩ := hs
          simp only [failsOn, hdNot, Bool.not_eq_true'] at hf
          have : c' ≠ c := by intro e; subst e; rw [hc'] at hf; cases hf
          simp [parseItem, ht, this]
        | lit c' =>
          obtain ⟨r', ht⟩ := hs
          simp only [failsOn, hdNot, bne_iff_ne, ne_eq] at hf
          simp [parseItem, ht, hf]
      simp [parseItems, this]
    | month => exact two _ rfl hf
    | day => exact two _ rfl hf
    | hour => exact two _ rfl hf
    | minute => exact two _ rfl hf
    | second => exact two _ rfl hf
    | year => simp [failsOn, isTwo] at hf
    | timestamp => simp [failsOn, isTwo] at hf
    | nano k => simp [failsOn, isTwo] at hf
    | tz perm => simp [failsOn, isTwo] at hf
    | tzName => simp [failsOn, isTwo] at hf
    | bad => simp [failsOn, isTwo] at hf

theorem restOk_plain (a : Item) (h : plain a = true) (rest : List Char) : RestOk a rest := by
  cases a <;> simp [plain] at h <;> constructor

theorem failsPair_sound (f : Fields) (hf : f.Valid) (ij ii : List Item) (p : Parsed)
    (h : failsPair ij ii = true) (hd : distinctSlots ij = true) (hn : ∀ it ∈ ij, getField it p = none) :
    ∀ P, parseItems ij (renderItems f ii) p ≠ some (P, []) := by
  induction ij generalizing ii p with
  | nil =>
    cases ii with
    | nil => simp [failsPair, hdOf, failsOn] at h
    | cons b ri =>
      simp only [failsPair] at h
      cases hh : hdOf (b :: ri) with
      | none => simp [hh] at h
      | some hd' =>
        simp only [hh] at h
        exact failsOn_sound [] hd' _ (hdOf_sat f _ hd' hh) p h
  | cons a rj ih =>
    cases ii with
    | nil => exact failsOn_sound (a :: rj) .empty _ rfl p (by simpa [failsPair] using h)
    | cons b ri =>
      simp only [failsPair] at h
      by_cases hc : (a == b && (plain a || (a == .space && startsSolid ri))) = true
      · simp only [hc, if_true] at h
        simp only [Bool.and_eq_true, beq_iff_eq, Bool.or_eq_true] at hc
        obtain ⟨hab, hpl⟩ := hc
        subst hab
        simp only [distinctSlots, Bool.and_eq_true, List.all_eq_true, Bool.not_eq_true'] at hd
        have hst : a = .tz false → f.zstyle = .compact ∨ f.zstyle = .colon := by
          intro e; subst e
          rcases hpl with h | h
          · simp [plain] at h
          · simp at h
        have hro : RestOk a (renderItems f ri) := by
          rcases hpl with h | h
          · exact restOk_plain a h _
          · rw [h.1]; exact .space _ (trimStart_renderItems f hf ri h.2)
        have h1 := parseItem_render f hf a (renderItems f ri) p hst hro (hn a (by simp))
        intro P
        simp only [parseItems, renderItems, h1, Option.bind_some]
        apply ih ri _ h hd.2
        intro j hj
        rw [getField_applyItem_other f j a p (by rw [sameSlot_comm]; exact hd.1 j hj)]
        exact hn j (by simp [hj])
      · simp only [hc, Bool.false_eq_true, if_false] at h
        cases hh : hdOf (b :: ri) with
        | none => simp [hh] at h
        | some hd' =>
          simp only [hh] at h
          exact failsOn_sound (a :: rj) hd' _ (hdOf_sat f _ hd' hh) p h

/-- decidable: row `rj` reads no value of row `ri` -/
def noStealPair (rj ri : Row) : Bool :=
  if rj.hasTzZ then (parsePattern ri.pattern.toList).getLast?.any nonAlphaItem && (lookupTz []).isNone
  else if rj.hasTime then
    failsPair (parsePattern rj.pattern.toList) (parsePattern ri.pattern.toList) &&
      distinctSlots (parsePattern rj.pattern.toList)
  else
    -- two date-only rows: both get the midnight appended
    !ri.hasTime && !ri.hasTzZ && RowCivil ri &&
      failsPair (parsePattern (rowPattern rj)) (effItems ri) && distinctSlots (parsePattern (rowPattern rj))

theorem attemptRow_none_of_pair (rj ri : Row) (f : Fields) (hf : f.Valid) (tz : Int) (h : noStealPair rj ri = true) :
    attemptRow rj (render ri f) tz = none := by
  unfold noStealPair at h
  cases hz : rj.hasTzZ with
  | true =>
    simp only [hz, if_true, Bool.and_eq_true, Option.isNone_iff_eq_none] at h
    obtain ⟨A0, l, hA, hl⟩ := renderItems_endsNonAlpha f _ h.1
    have : (splitAlphaTail (render ri f)).2 = [] := by
      simp [splitAlphaTail, render, hA, hl]
    simp [attemptRow, rowValue, hz, this, h.2]
  | false =>
    cases ht : rj.hasTime with
    | true =>
      simp only [hz, ht, Bool.false_eq_true, if_false, if_true, Bool.and_eq_true] at h
      obtain ⟨hfp, hd⟩ := h
      have hns := failsPair_sound f hf _ _ {} hfp hd (fun it _ => getField_empty it)
      have : strptimeCliL rj.pattern.toList (render ri f) = none := by
        unfold strptimeCliL render
        split
        · rename_i P hp; exact absurd hp (hns P)
        · rfl
      simp [attemptRow, rowValue, rowPattern, hz, ht, datetimeParseFromStr, this]
    | false =>
      simp only [hz, ht, Bool.false_eq_true, if_false, Bool.and_eq_true, Bool.not_eq_true'] at h
      obtain ⟨⟨⟨⟨hti, hzi⟩, hci⟩, hfp⟩, hd⟩ := h
      have hv := rowValue_render ri f hf hci
      simp only [rowValue, hzi, hti, Bool.false_eq_true, if_false, Option.map_some, Option.some.injEq] at hv
      have hns := failsPair_sound (effFields ri f) (effFields_valid ri f hf) _ _ {} hfp hd (fun it _ => getField_empty it)
      have : strptimeCliL (rowPattern rj) (render ri f ++ appendTimeValue.toList) = none := by
        rw [hv]
        unfold strptimeCliL
        split
        · rename_i P hp; exact absurd hp (hns P)
        · rfl
      simp [attemptRow, rowValue, hz, ht, datetimeParseFromStr, this]

/-- no row before position `i` reads a value of row `i` -/
def noStealRow (i : Nat) : Bool :=
  match cliFilterPatterns[i]? with
  | some ri => (cliFilterPatterns.take i).all fun rj => noStealPair rj ri
  | none => false

end S4V.Lemmas.CliAbs
