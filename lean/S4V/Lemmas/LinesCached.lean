/-
Lemmas for the cached `find_line` model (`S4V.Model.LinesCached`): the caches are
transparent. Readable statements live in `S4V.Props.CacheSpec`.

Core Lean only.
-/
import S4V.Model.LinesCached
import S4V.Lemmas.Lines

namespace S4V.Lemmas.LinesCached
open S4V.Model.Lines S4V.Model.LinesCached S4V.Lemmas.Lines

/-! ### true lines -/

/-- `(b, e)` are the bounds of a line of `d` -/
def IsLine (d : Bytes) (b e : Nat) : Prop :=
  e < d.length ∧ lineStart d e = b ∧ lineEnd d b = e

theorem IsLine.le {d : Bytes} {b e : Nat} (h : IsLine d b e) : b ≤ e := by
  have := (isLineStart_lineStart d e).1
  have := h.2.1
  omega

/-- every offset inside a true line has that line's bounds -/
theorem IsLine.of_mem {d : Bytes} {b e fo : Nat} (h : IsLine d b e) (h1 : b ≤ fo) (h2 : fo ≤ e) :
    lineStart d fo = b ∧ lineEnd d fo = e := by
  obtain ⟨a1, a2, a3⟩ := h
  have hbe : b ≤ e := by omega
  have hb : b < d.length := by omega
  have hsb : lineStart d b ≤ b := (isLineStart_lineStart d b).1
  have he := same_line d b e hb (by omega) (by omega)
  have hfo := same_line d b fo hb (by omega) (by omega)
  omega

theorem IsLine.start_self {d : Bytes} {b e : Nat} (h : IsLine d b e) : lineStart d b = b :=
  (h.of_mem (Nat.le_refl _) h.le).1

/-- the line containing `fo` is a true line -/
theorem isLine_of (d : Bytes) (fo : Nat) (hfo : fo < d.length) :
    IsLine d (lineStart d fo) (lineEnd d fo) := by
  have h1 := (isLineStart_lineStart d fo).1
  obtain ⟨h2, h3, _⟩ := isLineEnd_lineEnd d fo hfo
  have hs := same_line d fo (lineStart d fo) hfo (Nat.le_refl _) (by omega)
  have he := same_line d fo (lineEnd d fo) hfo (by omega) (Nat.le_refl _)
  exact ⟨h3, he.1, hs.2⟩

/-- two true lines sharing an offset are the same line -/
theorem IsLine.eq_of_overlap {d : Bytes} {b e b' e' fo : Nat} (h : IsLine d b e)
    (h' : IsLine d b' e') (h1 : b ≤ fo) (h2 : fo ≤ e) (h1' : b' ≤ fo) (h2' : fo ≤ e') :
    b = b' ∧ e = e' := by
  have := h.of_mem h1 h2
  have := h'.of_mem h1' h2'
  omega

/-- true lines are determined by their end -/
theorem IsLine.beg_eq_of_end {d : Bytes} {b b' e : Nat} (h : IsLine d b e) (h' : IsLine d b' e) :
    b = b' := by
  have := h.2.1; have := h'.2.1; omega

/-- true lines are determined by their begin -/
theorem IsLine.end_eq_of_beg {d : Bytes} {b e e' : Nat} (h : IsLine d b e) (h' : IsLine d b e') :
    e = e' := by
  have := h.2.2; have := h'.2.2; omega

/-- a true line that ends just before `fo` (inside the file) ends with a newline,
so `fo` begins a line -/
theorem lineStart_after_line {d : Bytes} {b fo : Nat} (h0 : fo ≠ 0) (hfo : fo < d.length)
    (h : IsLine d b (fo - 1)) : lineStart d fo = fo := by
  have hb := h.le
  have hb' : b < d.length := by omega
  obtain ⟨_, _, h3, _⟩ := isLineEnd_lineEnd d b hb'
  rw [h.2.2] at h3
  have hnl : d[fo - 1]? = some NL := by
    rcases h3 with h3 | h3
    · exact h3
    · omega
  exact IsLineStart.eq ⟨Nat.le_refl _, Or.inr hnl, fun k h1 h2 => by omega⟩

/-! ### `linesGet` -/

theorem linesGet_some {ls : List (Nat × Nat)} {beg b e : Nat} (h : linesGet ls beg = some (b, e)) :
    (b, e) ∈ ls ∧ b = beg := by
  unfold linesGet at h
  refine ⟨List.mem_of_find?_eq_some h, ?_⟩
  have := List.find?_some h
  simpa using this

theorem linesGet_none {ls : List (Nat × Nat)} {beg : Nat} (h : linesGet ls beg = none) :
    ∀ x ∈ ls, x.1 ≠ beg := by
  unfold linesGet at h
  intro x hx
  have := List.find?_eq_none.mp h x hx
  simpa using this

theorem linesGet_isSome_of_mem {ls : List (Nat × Nat)} {b e : Nat} (h : (b, e) ∈ ls) :
    linesGet ls b ≠ none := by
  intro hn
  exact linesGet_none hn (b, e) h rfl

/-! ### `leastEndGE` -/

/-- one step of the fold in `leastEndGE` -/
def leastStep (fo : Nat) (best : Option (Nat × Nat)) (e : Nat × Nat) : Option (Nat × Nat) :=
  if e.1 ≥ fo then
    match best with
    | some b => if e.1 < b.1 then some e else some b
    | none => some e
  else best

theorem leastEndGE_eq (m : List (Nat × Nat)) (fo : Nat) :
    leastEndGE m fo = m.foldl (leastStep fo) none := rfl

theorem leastStep_some {fo : Nat} {init : Option (Nat × Nat)} {a x : Nat × Nat}
    (hinit : ∀ b, init = some b → fo ≤ b.1) (h : leastStep fo init a = some x) :
    (init = some x ∨ x = a) ∧ fo ≤ x.1 ∧ (∀ y, init = some y → x.1 ≤ y.1) ∧
      (fo ≤ a.1 → x.1 ≤ a.1) := by
  unfold leastStep at h
  split at h
  · rename_i hge
    split at h
    · rename_i b
      have hb := hinit b rfl
      split at h
      · rename_i hlt
        cases h
        refine ⟨Or.inr rfl, hge, ?_, fun _ => Nat.le_refl _⟩
        intro y hy; cases hy; omega
      · rename_i hnlt
        cases h
        refine ⟨Or.inl rfl, hb, ?_, fun _ => by omega⟩
        intro y hy; cases hy; exact Nat.le_refl _
    · cases h
      refine ⟨Or.inr rfl, hge, ?_, fun _ => Nat.le_refl _⟩
      intro y hy; cases hy
  · rename_i hlt
    subst h
    refine ⟨Or.inl rfl, hinit x rfl, ?_, fun h => by omega⟩
    intro y hy; cases hy; exact Nat.le_refl _

theorem leastStep_none {fo : Nat} {init : Option (Nat × Nat)} {a : Nat × Nat}
    (h : leastStep fo init a = none) : init = none ∧ a.1 < fo := by
  unfold leastStep at h
  split at h
  · split at h
    · split at h <;> cases h
    · cases h
  · exact ⟨h, by omega⟩

theorem foldl_leastStep (fo : Nat) : ∀ (m : List (Nat × Nat)) (init : Option (Nat × Nat)),
    (∀ b, init = some b → fo ≤ b.1) →
    (∀ x, m.foldl (leastStep fo) init = some x →
        (init = some x ∨ x ∈ m) ∧ fo ≤ x.1 ∧ (∀ y, init = some y → x.1 ≤ y.1) ∧
          ∀ y ∈ m, fo ≤ y.1 → x.1 ≤ y.1) ∧
      (m.foldl (leastStep fo) init = none → init = none ∧ ∀ y ∈ m, y.1 < fo) := by
  intro m
  induction m with
  | nil =>
    intro init hinit
    refine ⟨?_, ?_⟩
    · intro x hx
      simp only [List.foldl_nil] at hx
      refine ⟨Or.inl hx, hinit x hx, ?_, ?_⟩
      · intro y hy; rw [hx] at hy; cases hy; exact Nat.le_refl _
      · intro y hy; cases hy
    · intro h
      simp only [List.foldl_nil] at h
      exact ⟨h, fun y hy => by cases hy⟩
  | cons a m ih =>
    intro init hinit
    have hinit' : ∀ b, leastStep fo init a = some b → fo ≤ b.1 :=
      fun b hb => (leastStep_some hinit hb).2.1
    obtain ⟨ih1, ih2⟩ := ih (leastStep fo init a) hinit'
    refine ⟨?_, ?_⟩
    · intro x hx
      simp only [List.foldl_cons] at hx
      obtain ⟨c1, c2, c3, c4⟩ := ih1 x hx
      refine ⟨?_, c2, ?_, ?_⟩
      · rcases c1 with c1 | c1
        · rcases (leastStep_some hinit c1).1 with h | h
          · exact Or.inl h
          · exact Or.inr (h ▸ List.mem_cons_self)
        · exact Or.inr (List.mem_cons_of_mem _ c1)
      · intro y hy
        cases hst : leastStep fo init a with
        | none => rw [(leastStep_none hst).1] at hy; cases hy
        | some z =>
          have := (leastStep_some hinit hst).2.2.1 y hy
          have := c3 z hst
          omega
      · intro y hy hfy
        rcases List.mem_cons.mp hy with rfl | hy
        · cases hst : leastStep fo init y with
          | none => have := (leastStep_none hst).2; omega
          | some z =>
            have := (leastStep_some hinit hst).2.2.2 hfy
            have := c3 z hst
            omega
        · exact c4 y hy hfy
    · intro h
      simp only [List.foldl_cons] at h
      obtain ⟨d1, d2⟩ := ih2 h
      obtain ⟨e1, e2⟩ := leastStep_none d1
      refine ⟨e1, ?_⟩
      intro y hy
      rcases List.mem_cons.mp hy with rfl | hy
      · exact e2
      · exact d2 y hy

/-- `leastEndGE` returns a member with the least end `≥ fo` -/
theorem leastEndGE_some {m : List (Nat × Nat)} {fo : Nat} {x : Nat × Nat}
    (h : leastEndGE m fo = some x) :
    x ∈ m ∧ fo ≤ x.1 ∧ ∀ y ∈ m, fo ≤ y.1 → x.1 ≤ y.1 := by
  rw [leastEndGE_eq] at h
  obtain ⟨c1, c2, _, c4⟩ := (foldl_leastStep fo m none (fun b hb => by cases hb)).1 x h
  rcases c1 with c1 | c1
  · cases c1
  · exact ⟨c1, c2, c4⟩

theorem leastEndGE_none {m : List (Nat × Nat)} {fo : Nat} (h : leastEndGE m fo = none) :
    ∀ y ∈ m, y.1 < fo := by
  rw [leastEndGE_eq] at h
  exact ((foldl_leastStep fo m none (fun b hb => by cases hb)).2 h).2

/-- on a set of true lines, the entry found is THE line containing `fo`, or a
line lying entirely after `fo` -/
theorem leastEndGE_true_line {d : Bytes} {m : List (Nat × Nat)} {fo e b : Nat}
    (hm : ∀ p ∈ m, IsLine d p.2 p.1) (h : leastEndGE m fo = some (e, b)) :
    (b ≤ fo ∧ fo ≤ e ∧ lineStart d fo = b ∧ lineEnd d fo = e) ∨ fo < b := by
  obtain ⟨c1, c2, _⟩ := leastEndGE_some h
  rcases Nat.lt_or_ge fo b with hlt | hge
  · exact Or.inr hlt
  · have := (hm _ c1).of_mem hge c2
    exact Or.inl ⟨hge, c2, this.1, this.2⟩

/-- on a set of true lines, if the line containing `fo` was ever stored then
`leastEndGE` finds it -/
theorem leastEndGE_finds {d : Bytes} {m : List (Nat × Nat)} {fo b e : Nat}
    (hm : ∀ p ∈ m, IsLine d p.2 p.1) (hmem : (e, b) ∈ m) (h1 : b ≤ fo) (h2 : fo ≤ e) :
    leastEndGE m fo = some (e, b) := by
  cases hl : leastEndGE m fo with
  | none => have := leastEndGE_none hl (e, b) hmem; simp only at this; omega
  | some x =>
    obtain ⟨x1, x2⟩ := x
    obtain ⟨c1, c2, c3⟩ := leastEndGE_some hl
    have hle : x1 ≤ e := c3 (e, b) hmem h2
    simp only at c2
    -- `x1` lies inside the line `(b, e)`, so the true line ending at `x1` is `(b, e)`
    have hx : IsLine d x2 x1 := hm _ c1
    have hbe : IsLine d b e := hm _ hmem
    have := hbe.eq_of_overlap hx (fo := x1) (by omega) hle hx.le (Nat.le_refl _)
    rw [this.1, this.2]

/-! ### the invariant -/

/-- keys (first components) are pairwise distinct -/
def KeysDistinct {α : Type} (l : List (Nat × α)) : Prop := l.Pairwise (fun a b => a.1 ≠ b.1)

theorem KeysDistinct.filter {α : Type} {l : List (Nat × α)} (p : Nat × α → Bool)
    (h : KeysDistinct l) : KeysDistinct (l.filter p) :=
  List.Pairwise.filter p h

theorem KeysDistinct.take {α : Type} {l : List (Nat × α)} (n : Nat)
    (h : KeysDistinct l) : KeysDistinct (l.take n) :=
  List.Pairwise.sublist (List.take_sublist n l) h

/-- putting a key in front of the list with that key filtered out -/
theorem KeysDistinct.cons_filter {α : Type} {l : List (Nat × α)} (k : Nat) (v : α)
    (h : KeysDistinct l) : KeysDistinct ((k, v) :: l.filter (·.1 != k)) := by
  refine List.pairwise_cons.mpr ⟨?_, h.filter _⟩
  intro a ha
  have := (List.mem_filter.mp ha).2
  simp only [bne_iff_ne, ne_eq] at this
  exact fun h => this h.symm

structure Inv (d : Bytes) (s : Store) : Prop where
  /-- every stored line is a true line of the file -/
  lines_true : ∀ p ∈ s.lines, IsLine d p.1 p.2
  lines_keys : KeysDistinct s.lines
  /-- every (end, begin) ever recorded is a true line -/
  ends_true : ∀ p ∈ s.endToBeg, IsLine d p.2 p.1
  /-- a stored line has its end recorded -/
  lines_ends : ∀ p ∈ s.lines, (p.2, p.1) ∈ s.endToBeg
  /-- every LRU entry is the cache-free answer -/
  lru_true : ∀ p ∈ s.lru, p.2 = findLinePlain d p.1
  lru_len : s.lru.length ≤ lruCap
  lru_keys : KeysDistinct s.lru

theorem inv_empty (d : Bytes) : Inv d empty where
  lines_true := fun _ h => by cases h
  lines_keys := List.Pairwise.nil
  ends_true := fun _ h => by cases h
  lines_ends := fun _ h => by cases h
  lru_true := fun _ h => by cases h
  lru_len := Nat.zero_le _
  lru_keys := List.Pairwise.nil

/-! ### LRU operations keep the invariant -/

theorem lruGet_some {l : List (Nat × R)} {fo : Nat} {r : R} (h : lruGet l fo = some r) :
    (fo, r) ∈ l ∧ l.find? (·.1 == fo) = some (fo, r) := by
  unfold lruGet at h
  cases hf : l.find? (·.1 == fo) with
  | none => rw [hf] at h; cases h
  | some e =>
    rw [hf] at h
    simp only [Option.map_some, Option.some.injEq] at h
    have h1 := List.find?_some hf
    have h2 := List.mem_of_find?_eq_some hf
    simp only [beq_iff_eq] at h1
    obtain ⟨e1, e2⟩ := e
    simp only at h h1
    subst h h1
    exact ⟨h2, rfl⟩

theorem mem_lruPut {l : List (Nat × R)} {fo : Nat} {r : R} {p : Nat × R}
    (h : p ∈ lruPut l fo r) : p = (fo, r) ∨ p ∈ l := by
  unfold lruPut at h
  have := List.mem_of_mem_take h
  rcases List.mem_cons.mp this with h | h
  · exact Or.inl h
  · exact Or.inr (List.mem_filter.mp h).1

theorem lruPut_len (l : List (Nat × R)) (fo : Nat) (r : R) : (lruPut l fo r).length ≤ lruCap := by
  unfold lruPut
  exact List.length_take_le _ _

theorem lruPut_keys {l : List (Nat × R)} (fo : Nat) (r : R) (h : KeysDistinct l) :
    KeysDistinct (lruPut l fo r) := by
  unfold lruPut
  exact (h.cons_filter fo r).take _

/-- replacing the LRU by `lruPut` of a correct answer keeps the invariant -/
theorem Inv.lruPut {d : Bytes} {s : Store} (h : Inv d s) (fo : Nat) (r : R)
    (hr : r = findLinePlain d fo) : Inv d { s with lru := lruPut s.lru fo r } where
  lines_true := h.lines_true
  lines_keys := h.lines_keys
  ends_true := h.ends_true
  lines_ends := h.lines_ends
  lru_true := by
    intro p hp
    rcases mem_lruPut hp with rfl | hp
    · exact hr
    · exact h.lru_true p hp
  lru_len := lruPut_len _ _ _
  lru_keys := lruPut_keys _ _ h.lru_keys

theorem Inv.lruPromote {d : Bytes} {s : Store} (h : Inv d s) (fo : Nat) :
    Inv d { s with lru := lruPromote s.lru fo } := by
  unfold S4V.Model.LinesCached.lruPromote
  cases hf : s.lru.find? (·.1 == fo) with
  | none => exact h
  | some e =>
    have h1 := List.find?_some hf
    have h2 := List.mem_of_find?_eq_some hf
    simp only [beq_iff_eq] at h1
    obtain ⟨e1, e2⟩ := e
    simp only at h1
    subst h1
    exact {
      lines_true := h.lines_true
      lines_keys := h.lines_keys
      ends_true := h.ends_true
      lines_ends := h.lines_ends
      lru_true := by
        intro p hp
        rcases List.mem_cons.mp hp with rfl | hp
        · exact h.lru_true _ h2
        · exact h.lru_true p (List.mem_filter.mp hp).1
      lru_len := by
        have hlt : (s.lru.filter (·.1 != e1)).length < s.lru.length :=
          List.length_filter_lt_length_iff_exists.mpr ⟨(e1, e2), h2, by simp⟩
        have := h.lru_len
        simp only [List.length_cons]
        omega
      lru_keys := h.lru_keys.cons_filter e1 e2 }

/-! ### `insertLine`, `dropLine` -/

theorem Inv.insertLine {d : Bytes} {s : Store} (h : Inv d s) {b e : Nat} (hl : IsLine d b e) :
    Inv d (insertLine s b e) where
  lines_true := by
    intro p hp
    rcases List.mem_cons.mp hp with rfl | hp
    · exact hl
    · exact h.lines_true p (List.mem_filter.mp hp).1
  lines_keys := h.lines_keys.cons_filter b e
  ends_true := by
    intro p hp
    rcases List.mem_cons.mp hp with rfl | hp
    · exact hl
    · exact h.ends_true p (List.mem_filter.mp hp).1
  lines_ends := by
    intro p hp
    rcases List.mem_cons.mp hp with rfl | hp
    · exact List.mem_cons_self
    · obtain ⟨hp1, hp2⟩ := List.mem_filter.mp hp
      simp only [bne_iff_ne, ne_eq] at hp2
      refine List.mem_cons_of_mem _ (List.mem_filter.mpr ⟨h.lines_ends p hp1, ?_⟩)
      simp only [bne_iff_ne, ne_eq]
      intro heq
      -- two true lines with the same end have the same begin
      have hp' : IsLine d p.1 e := heq ▸ h.lines_true p hp1
      exact hp2 (hp'.beg_eq_of_end hl)
  lru_true := h.lru_true
  lru_len := h.lru_len
  lru_keys := h.lru_keys

theorem Inv.dropLine {d : Bytes} {s : Store} (h : Inv d s) (b : Nat) : Inv d (dropLine s b) where
  lines_true := fun p hp => h.lines_true p (List.mem_filter.mp hp).1
  lines_keys := h.lines_keys.filter _
  ends_true := h.ends_true
  lines_ends := fun p hp => h.lines_ends p (List.mem_filter.mp hp).1
  lru_true := fun p hp => h.lru_true p (List.mem_filter.mp hp).1
  lru_len := Nat.le_trans (List.length_filter_le _ _) h.lru_len
  lru_keys := h.lru_keys.filter _

/-! ### `getLinep` -/

theorem getLinep_some {s : Store} {fo b e : Nat} (h : getLinep s fo = some (b, e)) :
    ∃ e', leastEndGE s.endToBeg fo = some (e', b) ∧ b ≤ fo ∧ (b, e) ∈ s.lines := by
  unfold getLinep at h
  split at h
  · rename_i e' beg hl
    split at h
    · cases h
    · rename_i hnlt
      obtain ⟨h1, h2⟩ := linesGet_some h
      subst h2
      exact ⟨e', hl, by omega, h1⟩
  · cases h

/-- a `get_linep` hit is the stored true line containing `fo` -/
theorem getLinep_hit {d : Bytes} {s : Store} (hs : Inv d s) {fo b e : Nat}
    (h : getLinep s fo = some (b, e)) : (b, e) ∈ s.lines ∧ b ≤ fo ∧ fo ≤ e := by
  obtain ⟨e', hl, hb, hmem⟩ := getLinep_some h
  obtain ⟨c1, c2, _⟩ := leastEndGE_some hl
  have := (hs.ends_true _ c1).end_eq_of_beg (hs.lines_true _ hmem)
  simp only at this c2
  exact ⟨hmem, hb, by omega⟩

/-- a `get_linep` miss means no stored line contains `fo` -/
theorem getLinep_miss {d : Bytes} {s : Store} (hs : Inv d s) {fo : Nat}
    (h : getLinep s fo = none) : ∀ p ∈ s.lines, p.1 ≤ fo → p.2 < fo := by
  intro p hp hle
  rcases Nat.lt_or_ge p.2 fo with hlt | hge
  · exact hlt
  · exfalso
    have hfind := leastEndGE_finds (d := d) hs.ends_true (hs.lines_ends p hp) hle hge
    unfold getLinep at h
    rw [hfind] at h
    simp only at h
    rw [if_neg (by omega)] at h
    exact linesGet_isSome_of_mem hp h

/-- shortcuts A1a / A1b are sound: after a `check_store` miss for `fo`, a stored
line containing `fo - 1` ends at `fo - 1`, so `fo` begins a line -/
theorem prev_line_ends {d : Bytes} {s : Store} (hs : Inv d s) {fo b e : Nat} (h0 : fo ≠ 0)
    (hfo : fo < d.length) (hmiss : getLinep s fo = none) (hmem : (b, e) ∈ s.lines)
    (h1 : b ≤ fo - 1) (h2 : fo - 1 ≤ e) : lineStart d fo = fo := by
  have := getLinep_miss hs hmiss (b, e) hmem (by simp only; omega)
  simp only at this
  have he : e = fo - 1 := by omega
  have hl := hs.lines_true _ hmem
  simp only at hl
  rw [he] at hl
  exact lineStart_after_line h0 hfo hl

/-! ### transparency -/

theorem findLinePlain_done {d : Bytes} {fo : Nat} (h : d.length = 0 ∨ fo ≥ d.length) :
    findLinePlain d fo = .done := by
  unfold findLinePlain; rw [if_pos h]

theorem findLinePlain_found {d : Bytes} {fo : Nat} (h : ¬(d.length = 0 ∨ fo ≥ d.length)) :
    findLinePlain d fo = .found (lineEnd d fo + 1) (lineStart d fo) (lineEnd d fo) := by
  unfold findLinePlain; rw [if_neg h]

/-- the begin offset chosen by A0 / A1a / A1b / A2.. is the true line start -/
theorem beg_choice {d : Bytes} {s : Store} (hs : Inv d s) {fo : Nat} (hfo : fo < d.length)
    (hmiss : getLinep s fo = none) :
    (if fo = 0 then 0
      else if (linesGet s.lines (fo - 1)).isSome then fo
      else if (getLinep s (fo - 1)).isSome then fo
      else lineStart d fo) = lineStart d fo := by
  split
  · rename_i h0
    subst h0
    have := (isLineStart_lineStart d 0).1
    omega
  · rename_i h0
    split
    · rename_i ha
      cases hg : linesGet s.lines (fo - 1) with
      | none => rw [hg] at ha; cases ha
      | some p =>
        obtain ⟨b, e⟩ := p
        obtain ⟨hmem, hb⟩ := linesGet_some hg
        have hle := (hs.lines_true _ hmem).le
        simp only at hle
        exact (prev_line_ends hs h0 hfo hmiss hmem (by omega) (by omega)).symm
    · split
      · rename_i hb
        cases hg : getLinep s (fo - 1) with
        | none => rw [hg] at hb; cases hb
        | some p =>
          obtain ⟨b, e⟩ := p
          obtain ⟨hmem, h1, h2⟩ := getLinep_hit hs hg
          exact (prev_line_ends hs h0 hfo hmiss hmem h1 h2).symm
      · rfl

theorem findLineCached_spec {d : Bytes} {s : Store} (hs : Inv d s) (fo : Nat) :
    (findLineCached d s fo).1 = findLinePlain d fo ∧ Inv d (findLineCached d s fo).2 := by
  unfold findLineCached
  split
  · -- LRU hit
    rename_i r hr
    exact ⟨hs.lru_true _ (lruGet_some hr).1, hs.lruPromote fo⟩
  · split
    · rename_i hdone
      exact ⟨(findLinePlain_done hdone).symm, hs⟩
    · rename_i hin
      have hfo : fo < d.length := by omega
      rw [findLinePlain_found hin]
      split
      · -- `check_store`: a stored line begins at `fo`
        rename_i b e hg
        obtain ⟨hmem, hb⟩ := linesGet_some hg
        have hl := hs.lines_true _ hmem
        simp only at hl
        have := hl.of_mem (fo := fo) (by omega) (by have := hl.le; omega)
        have hr : R.found (e + 1) b e = findLinePlain d fo := by
          rw [findLinePlain_found hin, this.1, this.2]
        exact ⟨by rw [this.1, this.2], hs.lruPut fo _ hr⟩
      · split
        · -- `check_store`: `get_linep` hit
          rename_i b e hg
          obtain ⟨hmem, h1, h2⟩ := getLinep_hit hs hg
          have hl := hs.lines_true _ hmem
          simp only at hl
          have := hl.of_mem h1 h2
          have hr : R.found (e + 1) b e = findLinePlain d fo := by
            rw [findLinePlain_found hin, this.1, this.2]
          exact ⟨by rw [this.1, this.2], hs.lruPut fo _ hr⟩
        · -- the walk, with shortcuts A1a / A1b
          rename_i hmiss
          simp only []
          rw [beg_choice hs hfo hmiss]
          have hl := isLine_of d fo hfo
          refine ⟨rfl, ?_⟩
          exact (hs.insertLine hl).lruPut fo _ (findLinePlain_found hin).symm

/-! ### histories -/

def expected (d : Bytes) (ops : List Op) : List (Option R) :=
  ops.map fun op => match op with
    | .find fo => some (findLinePlain d fo)
    | .drop _ => none

theorem applyOp_spec {d : Bytes} {s : Store} (hs : Inv d s) (op : Op) :
    (applyOp d s op).1 = (match op with
      | .find fo => some (findLinePlain d fo)
      | .drop _ => none) ∧ Inv d (applyOp d s op).2 := by
  cases op with
  | find fo =>
    have := findLineCached_spec hs fo
    simp only [applyOp]
    exact ⟨by rw [this.1], this.2⟩
  | drop fo =>
    simp only [applyOp]
    split
    · exact ⟨rfl, hs.dropLine _⟩
    · exact ⟨rfl, hs⟩

theorem runOps_spec {d : Bytes} : ∀ (ops : List Op) {s : Store}, Inv d s →
    (runOps d s ops).1 = expected d ops ∧ Inv d (runOps d s ops).2
  | [], _, hs => ⟨rfl, hs⟩
  | op :: ops, s, hs => by
    obtain ⟨h1, h2⟩ := applyOp_spec hs op
    obtain ⟨h3, h4⟩ := runOps_spec ops h2
    simp only [runOps]
    refine ⟨?_, h4⟩
    rw [h1, h3]
    rfl

end S4V.Lemmas.LinesCached
