/-
Lemmas for the second half of the printing model: lines split into `lineparts`
(`print_color_line_highlight_dt!` as `hlParts`) and the print buffer machine (`stepD`/`runD`).
-/
import S4V.Lemmas.Print

namespace S4V.Lemmas.PrintBuf
open S4V.Model.Print S4V.Lemmas.Print

/-! ### which colour every written byte gets -/

/-- every byte handed to `buffer_write_or_return!`, with the spec last given to
`setcolor_or_return!` before it (`cur` = the spec in force on entry) -/
def tagsOf : Option Spec → List Op → List (Option Spec × UInt8)
  | _, [] => []
  | _, .setc s :: r => tagsOf (some s) r
  | cur, .wr b :: r => b.map (fun x => (cur, x)) ++ tagsOf cur r

/-- the colouring a highlighted line should get: byte `i` of the line (`at_` = index of the first
byte of `x`) is datetime-coloured iff `b ≤ i < e`, text-coloured otherwise -/
def paint (b e : Nat) : Nat → Bytes → List (Option Spec × UInt8)
  | _, [] => []
  | at_, x :: r => (some (if b ≤ at_ ∧ at_ < e then Spec.dt else Spec.txt), x) :: paint b e (at_ + 1) r

def tag (s : Spec) (x : Bytes) : List (Option Spec × UInt8) := x.map (fun c => (some s, c))

theorem tagsOf_snd (cur : Option Spec) (os : List Op) : (tagsOf cur os).map Prod.snd = wrOf os := by
  induction os generalizing cur with
  | nil => rfl
  | cons x r ih =>
    cases x with
    | setc s => simp [tagsOf, wrOf, ih]
    | wr b => simp [tagsOf, wrOf, ih, Function.comp_def]

theorem paint_snd (b e at_ : Nat) (x : Bytes) : (paint b e at_ x).map Prod.snd = x := by
  induction x generalizing at_ with
  | nil => rfl
  | cons c r ih => simp [paint, ih]

theorem tagsOf_append_wr (cur : Option Spec) (s : Spec) (x : Bytes) (rest : List Op) :
    tagsOf cur (.setc s :: .wr x :: rest) = tag s x ++ tagsOf (some s) rest := by
  simp [tagsOf, tag]

theorem tagsOf_wrNE (cur : Option Spec) (s : Spec) (x : Bytes) (rest : List Op) :
    tagsOf cur (wrNE s x ++ rest) = tag s x ++ tagsOf (if x = [] then cur else some s) rest := by
  unfold wrNE
  by_cases h : x = []
  · simp [h, tag]
  · simp [h, tagsOf, tag]

theorem paint_append (b e at_ : Nat) (x y : Bytes) :
    paint b e at_ (x ++ y) = paint b e at_ x ++ paint b e (at_ + x.length) y := by
  induction x generalizing at_ with
  | nil => simp [paint]
  | cons c r ih =>
    simp only [List.cons_append, paint, ih, List.length_cons]
    have : at_ + 1 + r.length = at_ + (r.length + 1) := by omega
    rw [this]

theorem paint_txt (b e at_ : Nat) (x : Bytes) (h : ∀ i, at_ ≤ i → i < at_ + x.length → ¬(b ≤ i ∧ i < e)) :
    paint b e at_ x = tag .txt x := by
  induction x generalizing at_ with
  | nil => rfl
  | cons c r ih =>
    have h0 := h at_ (Nat.le_refl _) (by simp)
    have hr := ih (at_ + 1) (fun i h1 h2 => h i (by omega) (by simp only [List.length_cons]; omega))
    simp only [paint, tag, List.map_cons, if_neg h0]
    rw [hr]; rfl

theorem paint_dt (b e at_ : Nat) (x : Bytes) (h : ∀ i, at_ ≤ i → i < at_ + x.length → (b ≤ i ∧ i < e)) :
    paint b e at_ x = tag .dt x := by
  induction x generalizing at_ with
  | nil => rfl
  | cons c r ih =>
    have h0 := h at_ (Nat.le_refl _) (by simp)
    have hr := ih (at_ + 1) (fun i h1 h2 => h i (by omega) (by simp only [List.length_cons]; omega))
    simp only [paint, tag, List.map_cons, if_pos h0]
    rw [hr]; rfl

/-- split a part at `k` -/
theorem paint_split (b e at_ k : Nat) (p : Bytes) (hk : k ≤ p.length) :
    paint b e at_ p = paint b e at_ (p.take k) ++ paint b e (at_ + k) (p.drop k) := by
  have := paint_append b e at_ (p.take k) (p.drop k)
  rw [List.take_append_drop, List.length_take, Nat.min_eq_left hk] at this
  exact this

/-- one part: the literal case analysis of the macro colours byte `i` of the line as datetime iff
`b ≤ i < e` — for every position of the part relative to the datetime (`T` = the tags of what
follows, which do not depend on the colour in force because every write there has its own
`setcolor_or_return!`) -/
theorem tags_hlPart (at_ : Nat) (p : Bytes) {b e : Nat} (h : b ≤ e) (rest : List Op)
    (T : List (Option Spec × UInt8)) (hT : ∀ cur, tagsOf cur rest = T) (cur : Option Spec) :
    tagsOf cur (hlPart at_ p b e ++ rest) = paint b e at_ p ++ T := by
  unfold hlPart
  simp only []
  split
  · -- datetime entirely within the part
    rename_i hc
    obtain ⟨h1, h2⟩ := hc
    rw [List.append_assoc, List.append_assoc, tagsOf_wrNE, tagsOf_wrNE, tagsOf_wrNE, hT]
    rw [paint_split b e at_ (e - at_) p (by omega)]
    rw [paint_split b e at_ (b - at_) (p.take (e - at_)) (by rw [List.length_take]; omega)]
    have ht : (p.take (e - at_)).take (b - at_) = p.take (b - at_) := by
      rw [List.take_take]; congr 1; omega
    rw [ht]
    rw [paint_txt b e at_ (p.take (b - at_)) (by intro i hi1 hi2; rw [List.length_take] at hi2; omega)]
    rw [paint_dt b e (at_ + (b - at_)) ((p.take (e - at_)).drop (b - at_))
      (by intro i hi1 hi2; rw [List.length_drop, List.length_take] at hi2; omega)]
    rw [paint_txt b e (at_ + (e - at_)) (p.drop (e - at_)) (by intro i hi1 hi2; omega)]
    simp only [List.append_assoc]
  · split
    · -- begins here, extends into the next part
      rename_i _ hc
      obtain ⟨h1, h2, h3⟩ := hc
      rw [List.append_assoc, tagsOf_wrNE, tagsOf_wrNE, hT]
      rw [paint_split b e at_ (b - at_) p (by omega)]
      rw [paint_txt b e at_ (p.take (b - at_)) (by intro i hi1 hi2; rw [List.length_take] at hi2; omega)]
      rw [paint_dt b e (at_ + (b - at_)) (p.drop (b - at_))
        (by intro i hi1 hi2; rw [List.length_drop] at hi2; omega)]
      simp only [List.append_assoc]
    · split
      · -- began before, ends here
        rename_i _ _ hc
        obtain ⟨h1, h2, h3⟩ := hc
        rw [List.append_assoc, tagsOf_wrNE, tagsOf_wrNE, hT]
        rw [paint_split b e at_ (e - at_) p (by omega)]
        rw [paint_dt b e at_ (p.take (e - at_)) (by intro i hi1 hi2; rw [List.length_take] at hi2; omega)]
        rw [paint_txt b e (at_ + (e - at_)) (p.drop (e - at_)) (by intro i hi1 hi2; omega)]
        simp only [List.append_assoc]
      · split
        · -- spans the part
          rename_i _ _ _ hc
          obtain ⟨h1, h2⟩ := hc
          rw [paint_dt b e at_ p (by intro i hi1 hi2; omega)]
          simp [tagsOf, tag, hT]
        · -- not in this part
          rename_i hA hB hC hD
          rw [paint_txt b e at_ p (by intro i hi1 hi2; omega)]
          simp [tagsOf, tag, hT]

theorem tags_hlPartsAt {b e : Nat} (h : b ≤ e) (ps : List Bytes) (at_ : Nat) (cur : Option Spec) :
    tagsOf cur (hlPartsAt b e at_ ps) = paint b e at_ ps.flatten := by
  induction ps generalizing at_ cur with
  | nil => rfl
  | cons p r ih =>
    simp only [hlPartsAt, List.flatten_cons, paint_append]
    exact tags_hlPart at_ p h _ _ (fun c => ih (at_ + p.length) c) cur

/-- the colouring as three stretches of the line -/
theorem paint_zero (l : Bytes) {b e : Nat} (h : b ≤ e) :
    paint b e 0 l = tag .txt (l.take b) ++ tag .dt ((l.drop b).take (e - b)) ++ tag .txt (l.drop e) := by
  have hl := take_mid_drop l h
  have := paint_append b e 0 (l.take b) ((l.drop b).take (e - b) ++ l.drop e)
  rw [hl] at this
  rw [this, paint_append]
  rw [paint_txt b e 0 (l.take b) (by intro i hi1 hi2; rw [List.length_take] at hi2; omega)]
  rw [paint_dt b e (0 + (l.take b).length) ((l.drop b).take (e - b))
    (by intro i hi1 hi2; simp only [List.length_take, List.length_drop] at hi1 hi2; omega)]
  rw [paint_txt b e _ (l.drop e)
    (by intro i hi1 hi2; simp only [List.length_take, List.length_drop] at hi1 hi2; omega)]
  simp only [List.append_assoc]

/-! ### the print buffer machine -/

/-- bytes written by the macro calls, flushes forgotten -/
def wrM (ms : List MOp) : Bytes := wrOf (erase ms)

theorem erase_append (a b : List MOp) : erase (a ++ b) = erase a ++ erase b := by
  induction a with
  | nil => rfl
  | cons x r ih => cases x <;> simp [erase, ih]

theorem erase_withFlush (os : List Op) : erase (withFlush os) = os := by
  induction os with
  | nil => rfl
  | cons x r ih => cases x <;> simp [withFlush, erase, ih]

theorem wrM_append (a b : List MOp) : wrM (a ++ b) = wrM a ++ wrM b := by
  simp [wrM, erase_append, wrOf_append]

theorem wrM_withFlush (os : List Op) : wrM (withFlush os) = wrOf os := by simp [wrM, erase_withFlush]

theorem wrM_map_wr (l : List Bytes) : wrM (l.map .wr) = l.flatten := by
  induction l with
  | nil => rfl
  | cons x r ih => simp [wrM, erase, wrOf] at *; simp [ih]

theorem wrM_flatMap {α} (f : α → List MOp) (xs : List α) : wrM (xs.flatMap f) = xs.flatMap (fun x => wrM (f x)) := by
  induction xs with
  | nil => rfl
  | cons x r ih => simp [List.flatMap_cons, wrM_append, ih]

theorem wrM_optM (x : Option Bytes) : wrM (optM x) = optBytes x := by
  cases x <;> simp [optM, wrM, erase, wrOf, optBytes]

@[simp] theorem wrM_nil : wrM [] = [] := rfl
@[simp] theorem wrM_flush (r : List MOp) : wrM (.flush :: r) = wrM r := rfl
@[simp] theorem wrM_setc (s : Spec) (r : List MOp) : wrM (.setc s :: r) = wrM r := rfl
@[simp] theorem wrM_wr (b : Bytes) (r : List MOp) : wrM (.wr b :: r) = b ++ wrM r := rfl

/-- stdout so far plus what waits in the buffer -/
def pend (d : Dev) : Bytes := bytesOf d.out ++ d.buf
/-- the counted bytes written so far plus what waits in the buffer -/
def pdata (d : Dev) : Bytes := dataOf d.out ++ d.buf

theorem cnt_add_def (a b : Cnt) : a + b = ⟨a.printed + b.printed, a.flushed + b.flushed⟩ := rfl
theorem cnt_zero_add (c : Cnt) : (⟨0, 0⟩ : Cnt) + c = c := by
  cases c; simp [cnt_add_def]
theorem cnt_add_zero (c : Cnt) : c + (⟨0, 0⟩ : Cnt) = c := by
  cases c; simp [cnt_add_def]
theorem cnt_add_assoc (a b c : Cnt) : a + b + c = a + (b + c) := by
  cases a; cases b; cases c; simp [cnt_add_def, Nat.add_assoc]
theorem cnt_add_printed (a b : Cnt) : (a + b).printed = a.printed + b.printed := rfl
theorem cnt_add_flushed (a b : Cnt) : (a + b).flushed = a.flushed + b.flushed := rfl

theorem bytesOf_snoc (cs : List Chunk) (c : Chunk) : bytesOf (cs ++ [c]) = bytesOf cs ++ c.bytes := by
  simp [bytesOf_append, bytesOf]
theorem dataOf_snoc_data (cs : List Chunk) (b : Bytes) : dataOf (cs ++ [.data b]) = dataOf cs ++ b := by
  simp [dataOf_append, dataOf]
theorem dataOf_snoc_esc (cs : List Chunk) (b : Bytes) : dataOf (cs ++ [.esc b]) = dataOf cs := by
  simp [dataOf_append, dataOf]

/-- `buffer_flush_or_return!` moves the buffer to stdout -/
theorem flushD_spec (d : Dev) :
    pend (flushD d).1 = pend d ∧ pdata (flushD d).1 = pdata d ∧ (flushD d).1.last = d.last ∧
      (flushD d).1.buf = [] ∧ (flushD d).2.printed = d.buf.length := by
  unfold flushD
  split
  · rename_i h; simp [h]
  · simp [pend, pdata, bytesOf_snoc, dataOf_snoc_data, Chunk.bytes]

/-- `buffer_write_or_return!` (with `BUFFER_USE`) appends the slice to (stdout ++ buffer) -/
theorem writeD_spec (env : Env) (hu : env.use = true) (d : Dev) (s : Bytes) :
    pend (writeD env d s).1 = pend d ++ s ∧ pdata (writeD env d s).1 = pdata d ++ s ∧
      (writeD env d s).1.last = d.last ∧
      (writeD env d s).2.printed + (writeD env d s).1.buf.length = d.buf.length + s.length := by
  unfold writeD
  simp only [hu, Bool.not_true, Bool.false_eq_true, if_false]
  split
  · simp [pend, pdata]
  · split
    · simp [pend, pdata, bytesOf_append, dataOf_append, bytesOf, dataOf, Chunk.bytes]
    · simp [pend, pdata, bytesOf_append, dataOf_append, bytesOf, dataOf, Chunk.bytes]

theorem setcD_spec (env : Env) (d : Dev) (s : Spec) :
    pend (setcD env d s).1 = pend d ++ (if d.last = some (env.pal.esc s) then [] else env.pal.esc s) ∧
      pdata (setcD env d s).1 = pdata d ∧ (setcD env d s).1.last = some (env.pal.esc s) ∧
      (setcD env d s).1.buf = [] ∧ (setcD env d s).2.printed = d.buf.length := by
  obtain ⟨f1, f2, f3, f4, f5⟩ := flushD_spec d
  have e1 : bytesOf (flushD d).1.out = pend d := by
    have := f1; simp only [pend, f4, List.append_nil] at this; exact this
  have e2 : dataOf (flushD d).1.out = pdata d := by
    have := f2; simp only [pdata, f4, List.append_nil] at this; exact this
  unfold setcD
  simp only [f3]
  split
  · rename_i h
    simp [f1, f2, f3, f4, f5, h]
  · rename_i h
    simp [pend, pdata, h, bytesOf_snoc, dataOf_snoc_esc, Chunk.bytes, e1, e2, f4, f5, cnt_add_printed]

theorem runD_append (env : Env) (d : Dev) (a b : List MOp) :
    runD env d (a ++ b) = ((runD env (runD env d a).1 b).1, (runD env d a).2 + (runD env (runD env d a).1 b).2) := by
  induction a generalizing d with
  | nil => simp [runD, cnt_zero_add]
  | cons x r ih =>
    simp only [List.cons_append, runD, ih, cnt_add_assoc]

/-- what a run of macro calls does: stdout ++ buffer grows by exactly the bytes the same calls
produce without a buffer (`exec`), the colour state ends the same, the counted bytes grow by the
slices written, and `printed` is what left the buffer -/
theorem runD_spec (env : Env) (hu : env.use = true) (d : Dev) (ms : List MOp) :
    pend (runD env d ms).1 = pend d ++ bytesOf (exec env.pal d.last (erase ms)).1 ∧
      (runD env d ms).1.last = (exec env.pal d.last (erase ms)).2 ∧
      pdata (runD env d ms).1 = pdata d ++ wrM ms ∧
      (runD env d ms).2.printed + (runD env d ms).1.buf.length = d.buf.length + (wrM ms).length := by
  induction ms generalizing d with
  | nil => simp [runD, erase, exec, bytesOf, wrM, wrOf]
  | cons x r ih =>
    cases x with
    | flush =>
      obtain ⟨f1, f2, f3, f4, f5⟩ := flushD_spec d
      obtain ⟨i1, i2, i3, i4⟩ := ih (flushD d).1
      simp only [runD, stepD, erase, wrM_flush, cnt_add_printed]
      rw [f1, f3] at i1; rw [f3] at i2; rw [f2] at i3; rw [f4] at i4
      refine ⟨i1, i2, i3, ?_⟩
      simp at i4; omega
    | wr b =>
      obtain ⟨w1, w2, w3, w4⟩ := writeD_spec env hu d b
      obtain ⟨i1, i2, i3, i4⟩ := ih (writeD env d b).1
      simp only [runD, stepD, erase, wrM_wr, cnt_add_printed, exec]
      rw [w1, w3] at i1; rw [w3] at i2; rw [w2] at i3
      refine ⟨?_, i2, ?_, ?_⟩
      · rw [i1]; simp [bytesOf, Chunk.bytes]
      · rw [i3]; simp
      · simp only [List.length_append]; omega
    | setc s =>
      obtain ⟨s1, s2, s3, s4, s5⟩ := setcD_spec env d s
      obtain ⟨i1, i2, i3, i4⟩ := ih (setcD env d s).1
      simp only [runD, stepD, erase, wrM_setc, cnt_add_printed, exec]
      rw [s1, s3] at i1; rw [s3] at i2; rw [s2] at i3; rw [s4] at i4
      split
      · rename_i h
        simp only [h, if_true, List.append_nil] at i1
        rw [← h] at i1 i2
        refine ⟨i1, i2, i3, ?_⟩
        simp at i4; omega
      · rename_i h
        simp only [h, if_false] at i1
        refine ⟨?_, i2, i3, ?_⟩
        · rw [i1]; simp [bytesOf, Chunk.bytes]
        · simp at i4; omega

theorem runD_buf_flush (env : Env) (d : Dev) (ms : List MOp) : (runD env d (ms ++ [.flush])).1.buf = [] := by
  rw [runD_append]
  simp only [runD, stepD]
  exact (flushD_spec _).2.2.2.1

theorem runD_buf_setc (env : Env) (d : Dev) (ms : List MOp) (s : Spec) : (runD env d (ms ++ [.setc s])).1.buf = [] := by
  rw [runD_append]
  simp only [runD, stepD]
  exact (setcD_spec env _ s).2.2.2.1

/-- with the tuples passed straight, the no-colour loop (with its `print_line` calls) is the flat
run of the same macro calls -/
theorem ncLoop_flat (env : Env) (F : Flags) (hF : F.ret.print_line = true) (pre : List MOp) (d : Dev)
    (ls : List (List Bytes)) :
    ncLoop env F true pre d ls = runD env d (ls.flatMap (fun l => pre ++ l.map .wr)) := by
  induction ls generalizing d with
  | nil => rfl
  | cons l r ih =>
    simp only [ncLoop, print_line_M, List.flatMap_cons, runD_append, ih, hF, tup, addRes, if_true]
    congr 1

/-- the last call is a `buffer_flush_or_return!` or a `setcolor_or_return!` -/
def endsFlushing : List MOp → Bool
  | [] => false
  | [x] => match x with
    | .wr _ => false
    | _ => true
  | _ :: y :: r => endsFlushing (y :: r)

theorem endsFlushing_cons (x : MOp) (r : List MOp) (h : r ≠ []) : endsFlushing (x :: r) = endsFlushing r := by
  cases r with
  | nil => exact absurd rfl h
  | cons y t => rfl

theorem endsFlushing_append (a b : List MOp) (h : b ≠ []) : endsFlushing (a ++ b) = endsFlushing b := by
  induction a with
  | nil => rfl
  | cons x r ih =>
    rw [List.cons_append, endsFlushing_cons _ _ (by simp [h]), ih]

theorem runD_buf_of_ends (env : Env) (d : Dev) (ms : List MOp) (h : endsFlushing ms = true) :
    (runD env d ms).1.buf = [] := by
  induction ms generalizing d with
  | nil => simp [endsFlushing] at h
  | cons x r ih =>
    cases r with
    | nil =>
      cases x with
      | wr b => simp [endsFlushing] at h
      | flush => simp only [runD, stepD]; exact (flushD_spec _).2.2.2.1
      | setc s => simp only [runD, stepD]; exact (setcD_spec env _ s).2.2.2.1
    | cons y t =>
      simp only [runD]
      exact ih _ (by simpa [endsFlushing] using h)

/-! ### the escapes too: multi-part and one-part highlighting give the same byte stream -/

/-- calls in which every write is non-empty and has its own `setcolor_or_return!` right before it -/
inductive Guarded : List Op → Prop
  | nil : Guarded []
  | cons (s : Spec) (b : Bytes) (r : List Op) : b ≠ [] → Guarded r → Guarded (.setc s :: .wr b :: r)

/-- stdout of coloured bytes: an escape whenever the colour of the next byte differs from the last one set -/
def rend (p : Pal) : Last → List (Option Spec × UInt8) → Bytes × Last
  | last, [] => ([], last)
  | last, (none, x) :: r => (x :: (rend p last r).1, (rend p last r).2)
  | last, (some s, x) :: r =>
    if last = some (p.esc s) then (x :: (rend p last r).1, (rend p last r).2)
    else (p.esc s ++ x :: (rend p (some (p.esc s)) r).1, (rend p (some (p.esc s)) r).2)

theorem rend_same (p : Pal) (s : Spec) (b : Bytes) (t : List (Option Spec × UInt8)) :
    rend p (some (p.esc s)) (tag s b ++ t) = (b ++ (rend p (some (p.esc s)) t).1, (rend p (some (p.esc s)) t).2) := by
  induction b with
  | nil => simp [tag]
  | cons c r ih =>
    simp only [tag, List.map_cons, List.cons_append, rend, if_true] at *
    rw [ih]

theorem rend_run (p : Pal) (last : Last) (s : Spec) (b : Bytes) (hb : b ≠ []) (t : List (Option Spec × UInt8)) :
    rend p last (tag s b ++ t) =
      ((if last = some (p.esc s) then [] else p.esc s) ++ b ++ (rend p (some (p.esc s)) t).1, (rend p (some (p.esc s)) t).2) := by
  cases b with
  | nil => exact absurd rfl hb
  | cons c r =>
    have := rend_same p s r t
    simp only [tag] at this
    by_cases h : last = some (p.esc s)
    · subst h
      simp only [tag, List.map_cons, List.cons_append, rend, if_true, this]
      simp
    · simp only [tag, List.map_cons, List.cons_append, rend, h, if_false, this]
      simp

theorem exec_guarded (p : Pal) (os : List Op) (h : Guarded os) (last : Last) (cur : Option Spec) :
    (bytesOf (exec p last os).1, (exec p last os).2) = rend p last (tagsOf cur os) := by
  induction h generalizing last cur with
  | nil => simp [exec, bytesOf, tagsOf, rend]
  | cons s b r hb _ ih =>
    have ih' := ih (some (p.esc s)) (some s)
    rw [tagsOf_append_wr, rend_run p last s b hb]
    have e1 : bytesOf (exec p (some (p.esc s)) r).1 = (rend p (some (p.esc s)) (tagsOf (some s) r)).1 := by rw [← ih']
    have e2 : (exec p (some (p.esc s)) r).2 = (rend p (some (p.esc s)) (tagsOf (some s) r)).2 := by rw [← ih']
    by_cases hl : last = some (p.esc s)
    · subst hl
      simp [exec, bytesOf, Chunk.bytes, ← e1, ← e2]
    · simp [exec, hl, bytesOf, Chunk.bytes, ← e1, ← e2]

theorem guarded_wrNE (s : Spec) (x : Bytes) (r : List Op) (h : Guarded r) : Guarded (wrNE s x ++ r) := by
  unfold wrNE
  by_cases hx : x = []
  · simpa [hx] using h
  · simpa [hx] using Guarded.cons s x r hx h

theorem guarded_hlPart (at_ : Nat) (p : Bytes) (hp : p ≠ []) (b e : Nat) (r : List Op) (h : Guarded r) :
    Guarded (hlPart at_ p b e ++ r) := by
  unfold hlPart
  simp only []
  split
  · simp only [List.append_assoc]; exact guarded_wrNE _ _ _ (guarded_wrNE _ _ _ (guarded_wrNE _ _ _ h))
  · split
    · simp only [List.append_assoc]; exact guarded_wrNE _ _ _ (guarded_wrNE _ _ _ h)
    · split
      · simp only [List.append_assoc]; exact guarded_wrNE _ _ _ (guarded_wrNE _ _ _ h)
      · split
        · exact Guarded.cons _ _ _ hp h
        · exact Guarded.cons _ _ _ hp h

theorem guarded_hlPartsAt (b e : Nat) (ps : List Bytes) (hne : ∀ p ∈ ps, p ≠ []) (at_ : Nat) :
    Guarded (hlPartsAt b e at_ ps) := by
  induction ps generalizing at_ with
  | nil => exact Guarded.nil
  | cons p r ih =>
    exact guarded_hlPart at_ p (hne p (by simp)) b e _ (ih (fun q hq => hne q (by simp [hq])) _)

theorem hlLine_eq_hlPart (l : Bytes) (hl : l ≠ []) (b e : Nat) : hlLine l b e = hlPart 0 l b e := by
  unfold hlLine hlPart
  simp only [hl, if_false, Nat.zero_le, true_and, Nat.zero_add, Nat.sub_zero, Nat.not_lt_zero, false_and]
  split
  · rw [List.drop_take]
  · split
    · rename_i h1 h2
      have : l.length ≤ e := by omega
      simp [this, h2]
    · rename_i h1 h2
      simp [h2]

theorem tags_hlLine (l : Bytes) {b e : Nat} (h : b ≤ e) (cur : Option Spec) : tagsOf cur (hlLine l b e) = paint b e 0 l := by
  by_cases hl : l = []
  · subst hl; simp [hlLine, tagsOf, paint]
  · have := tags_hlPart 0 l h [] [] (fun _ => rfl) cur
    simpa [hlLine_eq_hlPart l hl] using this

theorem guarded_hlLine (l : Bytes) (b e : Nat) : Guarded (hlLine l b e) := by
  by_cases hl : l = []
  · subst hl; simpa [hlLine] using Guarded.nil
  · rw [hlLine_eq_hlPart l hl]
    simpa using guarded_hlPart 0 l hl b e [] Guarded.nil

/-- non-empty parts: the whole byte stream, escapes included, and the colour left set are those of
the one-part line -/
theorem exec_hlParts_eq_hlLine (p : Pal) (last : Last) (ps : List Bytes) (hne : ∀ q ∈ ps, q ≠ []) {b e : Nat} (h : b ≤ e) :
    bytesOf (exec p last (hlParts ps b e)).1 = bytesOf (exec p last (hlLine ps.flatten b e)).1 ∧
      (exec p last (hlParts ps b e)).2 = (exec p last (hlLine ps.flatten b e)).2 := by
  have a := exec_guarded p _ (guarded_hlPartsAt b e ps hne 0) last none
  have c := exec_guarded p _ (guarded_hlLine ps.flatten b e) last none
  rw [tags_hlPartsAt h] at a
  rw [tags_hlLine _ h] at c
  rw [← c] at a
  have h1 := congrArg Prod.fst a
  have h2 := congrArg Prod.snd a
  exact ⟨h1, h2⟩

end S4V.Lemmas.PrintBuf
