/-
Soundness of the executable backtracking matcher `S4V.Model.Regex.search` with respect to the
language semantics `Matches`: every reported match is a match.
(Completeness / priority are NOT proved; they are the subject of the `rgx` correspondence.)
-/
import S4V.Model.Regex

namespace S4V.Lemmas.RegexExec
open S4V.Model.Regex

theorem isPrefix_spec {a b : List UInt8} (h : isPrefix a b = true) : b = a ++ b.drop a.length := by
  induction a generalizing b with
  | nil => simp
  | cons x t ih =>
    cases b with
    | nil => simp [isPrefix] at h
    | cons y u =>
      simp only [isPrefix, Bool.and_eq_true, beq_iff_eq] at h
      obtain ⟨hxy, ht⟩ := h
      subst hxy
      simp only [List.length_cons, List.drop_succ_cons, List.cons_append, List.cons.injEq, true_and]
      exact ih ht

/-- `decode` only looks at the bytes it consumes -/
theorem decode_take {s : List UInt8} {c n : Nat} (h : decode s = some (c, n)) :
    decode (s.take n) = some (c, n) ∧ (s.take n).length = n := by
  cases s with
  | nil => simp [decode] at h
  | cons b0 rest =>
    simp only [decode] at h
    split at h
    · simp only [Option.some.injEq, Prod.mk.injEq] at h
      obtain ⟨h1, h2⟩ := h
      subst h1 h2
      simp [decode, *]
    · split at h
      · cases h
      · split at h
        · split at h
          · split at h
            · simp only [Option.some.injEq, Prod.mk.injEq] at h
              obtain ⟨h1, h2⟩ := h
              subst h1 h2
              simp [decode, *]
            · cases h
          · cases h
        · split at h
          · split at h
            · split at h
              · split at h
                · rename_i hcond
                  simp only [Option.some.injEq, Prod.mk.injEq] at h
                  obtain ⟨h1, h2⟩ := h
                  subst h1 h2
                  have hcond' := hcond
                  simp only [Bool.and_eq_true, decide_eq_true_eq, Bool.not_eq_true', Bool.and_eq_false_iff,
                    decide_eq_false_iff_not] at hcond'
                  simp [decode, *]
                  omega
                · cases h
              · cases h
            · cases h
          · split at h
            · split at h
              · split at h
                · split at h
                  · simp only [Option.some.injEq, Prod.mk.injEq] at h
                    obtain ⟨h1, h2⟩ := h
                    subst h1 h2
                    simp [decode, *]
                  · cases h
                · cases h
              · cases h
            · cases h

/-- the shape of every soundness statement: a successful run consumed some `mid` that `r` matches
and then the continuation succeeded with the same result -/
def Sound (r : Re) (f : Nat → List UInt8 → Caps → K → Option Res) : Prop :=
  ∀ (pre rest : List UInt8) (caps : Caps) (k : K) (res : Res),
    f pre.length rest caps k = some res →
    ∃ mid rest' c', rest = mid ++ rest' ∧ Matches r pre mid rest' ∧
      k (pre.length + mid.length) rest' c' = some res

theorem repLoop_sound {r : Re} {body : Nat → List UInt8 → Caps → K → Option Res} (hb : Sound r body) :
    ∀ (fuel need : Nat) (hi : Option Nat), (hi = none ∨ hi = some fuel) →
      Sound (.rep r need hi) (repLoop body fuel need) := by
  intro fuel
  induction fuel with
  | zero =>
    intro need hi _ pre rest caps k res h
    simp only [repLoop] at h
    split at h
    · rename_i hn
      subst hn
      exact ⟨[], rest, caps, by simp, Matches.repNil _ _ _ _, by simpa using h⟩
    · cases h
  | succ f ih =>
    intro need hi hhi pre rest caps k res h
    have hne : hi ≠ some 0 := by
      rcases hhi with h1 | h1 <;> simp [h1]
    have hpred : predHi hi = none ∨ predHi hi = some f := by
      rcases hhi with h1 | h1 <;> simp [h1, predHi]
    simp only [repLoop] at h
    -- one iteration followed by the rest of the loop
    have step : ∀ need', need' = need - 1 →
        body pre.length rest caps (fun p r' c => repLoop body f need' p r' c k) = some res →
        ∃ mid rest' c', rest = mid ++ rest' ∧ Matches (.rep r need hi) pre mid rest' ∧
          k (pre.length + mid.length) rest' c' = some res := by
      intro need' hn' hrun
      obtain ⟨mid1, rest1, c1, hr1, hm1, hk1⟩ := hb pre rest caps _ res hrun
      have hk1' : repLoop body f need' (pre ++ mid1).length rest1 c1 k = some res := by
        simpa [List.length_append] using hk1
      obtain ⟨mid2, rest2, c2, hr2, hm2, hk2⟩ := ih need' (predHi hi) hpred (pre ++ mid1) rest1 c1 k res hk1'
      refine ⟨mid1 ++ mid2, rest2, c2, by simp [hr1, hr2], ?_, ?_⟩
      · subst hn'
        subst hr2
        exact Matches.repCons hne hm1 hm2
      · simpa [List.length_append, Nat.add_assoc] using hk2
    split at h
    · rename_i hn
      subst hn
      split at h
      · rename_i x hx
        simp only [Option.some.injEq] at h
        subst h
        exact step 0 rfl hx
      · exact ⟨[], rest, caps, by simp, Matches.repNil _ _ _ _, by simpa using h⟩
    · exact step (need - 1) rfl h

theorem m_sound : ∀ (r : Re), Sound r (m r) := by
  intro r
  induction r with
  | eps =>
    intro pre rest caps k res h
    exact ⟨[], rest, caps, by simp, Matches.eps _ _, by simpa [m] using h⟩
  | lit bs =>
    intro pre rest caps k res h
    simp only [m] at h
    split at h
    · rename_i hp
      exact ⟨bs, rest.drop bs.length, caps, isPrefix_spec hp, Matches.lit _ _ _, h⟩
    · cases h
  | cls rs =>
    intro pre rest caps k res h
    simp only [m] at h
    split at h
    · rename_i c n hd
      split at h
      · rename_i hin
        obtain ⟨hd', hl⟩ := decode_take hd
        refine ⟨rest.take n, rest.drop n, caps, (List.take_append_drop n rest).symm, ?_, ?_⟩
        · apply Matches.cls
          simp [clsMatch, hd', hl, hin]
        · rw [hl]; exact h
      · cases h
    · cases h
  | cat a b iha ihb =>
    intro pre rest caps k res h
    simp only [m] at h
    obtain ⟨mid1, rest1, c1, hr1, hm1, hk1⟩ := iha pre rest caps _ res h
    have hk1' : m b (pre ++ mid1).length rest1 c1 k = some res := by
      simpa [List.length_append] using hk1
    obtain ⟨mid2, rest2, c2, hr2, hm2, hk2⟩ := ihb (pre ++ mid1) rest1 c1 k res hk1'
    refine ⟨mid1 ++ mid2, rest2, c2, by simp [hr1, hr2], ?_, ?_⟩
    · subst hr2
      exact Matches.cat hm1 hm2
    · simpa [List.length_append, Nat.add_assoc] using hk2
  | alt a b iha ihb =>
    intro pre rest caps k res h
    simp only [m] at h
    split at h
    · rename_i x hx
      simp only [Option.some.injEq] at h
      subst h
      obtain ⟨mid, rest', c', hr, hm, hk⟩ := iha pre rest caps k _ hx
      exact ⟨mid, rest', c', hr, Matches.altL hm, hk⟩
    · obtain ⟨mid, rest', c', hr, hm, hk⟩ := ihb pre rest caps k _ h
      exact ⟨mid, rest', c', hr, Matches.altR hm, hk⟩
  | rep r lo hi ih =>
    intro pre rest caps k res h
    simp only [m] at h
    have hb : Sound r (fun p r' c k' => m r p r' c k') := ih
    cases hi with
    | none => exact repLoop_sound hb _ lo none (Or.inl rfl) pre rest caps k res h
    | some hh => exact repLoop_sound hb _ lo (some hh) (Or.inr rfl) pre rest caps k res h
  | group i r ih =>
    intro pre rest caps k res h
    simp only [m] at h
    obtain ⟨mid, rest', c', hr, hm, hk⟩ := ih pre rest caps _ res h
    exact ⟨mid, rest', _, hr, Matches.group hm, hk⟩
  | bol =>
    intro pre rest caps k res h
    simp only [m] at h
    split at h
    · rename_i hp
      have : pre = [] := List.eq_nil_of_length_eq_zero hp
      subst this
      exact ⟨[], rest, caps, by simp, Matches.bol _, by simpa using h⟩
    · cases h
  | eol =>
    intro pre rest caps k res h
    simp only [m] at h
    split at h
    · rename_i hp
      have : rest = [] := by simpa using hp
      subst this
      exact ⟨[], [], caps, by simp, Matches.eol _, by simpa using h⟩
    · cases h

theorem searchFrom_sound (r : Re) : ∀ (rest pre : List UInt8) (res : Res),
    searchFrom r pre.length rest = some res →
    ∃ pre' mid post, pre ++ rest = pre' ++ mid ++ post ∧ pre'.length = res.start ∧
      res.stop = res.start + mid.length ∧ Matches r pre' mid post := by
  intro rest
  induction rest with
  | nil =>
    intro pre res h
    simp only [searchFrom] at h
    obtain ⟨mid, rest', c', hr, hm, hk⟩ := m_sound r pre [] [] _ res h
    simp only [Option.some.injEq] at hk
    subst hk
    exact ⟨pre, mid, rest', by simp [hr], rfl, rfl, hm⟩
  | cons b t ih =>
    intro pre res h
    simp only [searchFrom] at h
    split at h
    · rename_i x hx
      simp only [Option.some.injEq] at h
      subst h
      obtain ⟨mid, rest', c', hr, hm, hk⟩ := m_sound r pre (b :: t) [] _ _ hx
      simp only [Option.some.injEq] at hk
      subst hk
      exact ⟨pre, mid, rest', by simp [hr], rfl, rfl, hm⟩
    · have h' : searchFrom r (pre ++ [b]).length t = some res := by
        simpa [List.length_append] using h
      obtain ⟨pre', mid, post, hs, h1, h2, hm⟩ := ih (pre ++ [b]) res h'
      exact ⟨pre', mid, post, by simpa using hs, h1, h2, hm⟩

theorem search_sound {r : Re} {s : List UInt8} {res : Res} (h : search r s = some res) :
    ∃ pre mid post, s = pre ++ mid ++ post ∧ pre.length = res.start ∧
      res.stop = res.start + mid.length ∧ Matches r pre mid post := by
  have := searchFrom_sound r s [] res (by simpa [search] using h)
  simpa using this

theorem search_matchesIn {r : Re} {s : List UInt8} {res : Res} (h : search r s = some res) :
    MatchesIn r s := by
  obtain ⟨pre, mid, post, hs, _, _, hm⟩ := search_sound h
  exact ⟨pre, mid, post, hs, hm⟩

end S4V.Lemmas.RegexExec
