/-
Lemmas about the EZCHECK byte tests (`S4V.Model.Ezcheck`): the modelled functions equal their
specifications for every input; list facts used by the transparency proof.
-/
import S4V.Model.Ezcheck

namespace S4V.Lemmas.Ezcheck
open S4V.Model.Ezcheck

/-- first byte is an ASCII digit -/
def startsDb : List UInt8 → Bool
  | b :: _ => isDigit b
  | [] => false

/-- last byte is an ASCII digit -/
def endsDb (s : List UInt8) : Bool :=
  match s.getLast? with
  | some b => isDigit b
  | none => false

theorem hasByte_append (p : UInt8 → Bool) (a b : List UInt8) :
    hasByte p (a ++ b) = (hasByte p a || hasByte p b) := by
  simp [hasByte, List.any_append]

theorem hasD2_cons (x : UInt8) (t : List UInt8) :
    hasD2 (x :: t) = ((isDigit x && startsDb t) || hasD2 t) := by
  cases t with
  | nil => simp [hasD2, startsDb]
  | cons y t => simp [hasD2, startsDb]

theorem hasD2_append_left {a : List UInt8} (b : List UInt8) (h : hasD2 a = true) : hasD2 (a ++ b) = true := by
  induction a with
  | nil => simp [hasD2] at h
  | cons x t ih =>
    rw [hasD2_cons] at h
    rw [List.cons_append, hasD2_cons]
    simp only [Bool.or_eq_true, Bool.and_eq_true] at h ⊢
    rcases h with ⟨hx, ht⟩ | ht
    · left
      refine ⟨hx, ?_⟩
      cases t with
      | nil => simp [startsDb] at ht
      | cons y t => simpa [startsDb] using ht
    · right; exact ih ht

theorem hasD2_append_right (a : List UInt8) {b : List UInt8} (h : hasD2 b = true) : hasD2 (a ++ b) = true := by
  induction a with
  | nil => simpa using h
  | cons x t ih =>
    rw [List.cons_append, hasD2_cons]
    simp [ih]

theorem hasD2_boundary {a b : List UInt8} (ha : endsDb a = true) (hb : startsDb b = true) :
    hasD2 (a ++ b) = true := by
  induction a with
  | nil => simp [endsDb] at ha
  | cons x t ih =>
    rw [List.cons_append, hasD2_cons]
    cases t with
    | nil =>
      have : isDigit x = true := by simpa [endsDb] using ha
      simp [this, hb]
    | cons y t =>
      have : endsDb (y :: t) = true := by
        simpa [endsDb, List.getLast?_cons_cons] using ha
      have h2 := ih this
      rw [List.cons_append] at h2
      simp [h2]

theorem startsDb_append_left {a : List UInt8} (b : List UInt8) (h : startsDb a = true) : startsDb (a ++ b) = true := by
  cases a with
  | nil => simp [startsDb] at h
  | cons x t => simpa [startsDb] using h

theorem endsDb_append_right (a : List UInt8) {b : List UInt8} (h : endsDb b = true) : endsDb (a ++ b) = true := by
  cases hb : b.getLast? with
  | none => simp [endsDb, hb] at h
  | some x =>
    simp only [endsDb, hb] at h
    simp [endsDb, List.getLast?_append, hb, h]

/-! ### the modelled functions equal their specifications -/

theorem sliceContainsX2_eq (s : List UInt8) (a b : UInt8) :
    sliceContainsX2 s a b = s.any (fun x => x == a || x == b) := by
  unfold sliceContainsX2 sliceContainsX2Memchr
  induction s with
  | nil => simp
  | cons x t ih =>
    simp only [List.findIdx?_cons, List.any_cons]
    by_cases hx : (x == a || x == b) = true
    · simp [hx]
    · have hx' : (x == a || x == b) = false := by simpa using hx
      rw [hx']
      simp only [Bool.false_eq_true, ↓reduceIte, Bool.false_or]
      rw [← ih]
      cases List.findIdx? (fun x => x == a || x == b) t <;> simp

/-- `slice_contains_X_2(slice, b"12")` is exactly "contains `'1'` or `'2'`" -/
theorem sliceContainsX2_12 (s : List UInt8) : sliceContainsX2 s 49 50 = has12 s := by
  rw [sliceContainsX2_eq]; rfl

theorem sliceContainsN2_eq (s : List UInt8) (a b : UInt8) :
    sliceContainsN2 s a b = s.any (fun x => x == a || x == b) := by
  induction s with
  | nil => simp [sliceContainsN2]
  | cons x t ih =>
    simp only [sliceContainsN2, List.any_cons, ih]
    by_cases hx : (x == a || x == b) = true <;> simp [hx]

theorem contains_or_eq_any (s : List UInt8) (a b : UInt8) :
    (s.contains a || s.contains b) = s.any (fun x => x == a || x == b) := by
  induction s with
  | nil => simp
  | cons x t ih =>
    simp only [List.contains_cons, List.any_cons, ← ih]
    rw [show (a == x) = (x == a) from BEq.comm, show (b == x) = (x == b) from BEq.comm]
    generalize (x == a) = p
    generalize (x == b) = q
    generalize t.contains a = r
    generalize t.contains b = u
    cases p <;> cases q <;> cases r <;> cases u <;> rfl

/-- the hand-unrolled variant (with its length special cases) computes the same function -/
theorem sliceContainsX2Unroll_eq (s : List UInt8) (a b : UInt8) :
    sliceContainsX2Unroll s a b = sliceContainsX2 s a b := by
  rw [sliceContainsX2_eq]
  unfold sliceContainsX2Unroll
  split
  · exact sliceContainsN2_eq s a b
  · exact contains_or_eq_any s a b

theorem sliceContainsD2Go_eq (last : Bool) (s : List UInt8) :
    sliceContainsD2Go last s = ((last && startsDb s) || hasD2 s) := by
  induction s generalizing last with
  | nil => simp [sliceContainsD2Go, startsDb, hasD2]
  | cons x t ih =>
    rw [sliceContainsD2Go, hasD2_cons]
    by_cases hx : isDigit x = true
    · cases last <;> simp [hx, ih, startsDb]
    · have hx' : isDigit x = false := by simpa using hx
      simp [hx', ih, startsDb]

/-- `slice_contains_D2` is exactly "contains two consecutive ASCII digits" -/
theorem sliceContainsD2_eq (s : List UInt8) : sliceContainsD2 s = hasD2 s := by
  simp [sliceContainsD2, sliceContainsD2Go_eq]

theorem is12_isDigit {x : UInt8} (h : is12 x = true) : isDigit x = true := by
  simp only [is12, Bool.or_eq_true, beq_iff_eq] at h
  rcases h with h | h <;> subst h <;> decide

theorem sliceContains12D2Go_eq (last : Bool) (s : List UInt8) :
    sliceContains12D2Go last s = (has12 s || (last && startsDb s) || hasD2 s) := by
  induction s generalizing last with
  | nil => simp [sliceContains12D2Go, startsDb, hasD2, has12, hasByte]
  | cons x t ih =>
    rw [sliceContains12D2Go, hasD2_cons]
    have h12 : has12 (x :: t) = (is12 x || has12 t) := by simp [has12, hasByte]
    rw [h12]
    by_cases h1 : (x == 49 || x == 50) = true
    · have : is12 x = true := h1
      simp [h1, this]
    · have h1' : (x == 49 || x == 50) = false := by simpa using h1
      have h1'' : is12 x = false := h1'
      rw [h1', h1'']
      by_cases hx : isDigit x = true
      · have hs : startsDb (x :: t) = true := hx
        cases last <;> simp [hx, ih, hs, Bool.or_assoc]
      · have hx' : isDigit x = false := by simpa using hx
        have hs : startsDb (x :: t) = false := hx'
        simp [hx', ih, hs]

/-- `slice_contains_12_D2` is exactly "contains `'1'`/`'2'`, or two consecutive digits" -/
theorem sliceContains12D2_eq (s : List UInt8) : sliceContains12D2 s = (has12 s || hasD2 s) := by
  simp [sliceContains12D2, sliceContains12D2Go_eq]

/-! ### prefixes -/

theorem hasByte_take_le (p : UInt8 → Bool) (l : List UInt8) (n : Nat) (h : hasByte p l = false) :
    hasByte p (l.take n) = false := by
  have : l = l.take n ++ l.drop n := (List.take_append_drop n l).symm
  rw [this, hasByte_append] at h
  simp only [Bool.or_eq_false_iff] at h
  exact h.1

theorem hasD2_take_le (l : List UInt8) (n : Nat) (h : hasD2 l = false) : hasD2 (l.take n) = false := by
  cases hh : hasD2 (l.take n) with
  | false => rfl
  | true =>
    have := hasD2_append_left (l.drop n) hh
    rw [List.take_append_drop] at this
    rw [this] at h; cases h

theorem hasByte_take_mono (p : UInt8 → Bool) (l : List UInt8) {a b : Nat} (hab : b ≤ a)
    (h : hasByte p (l.take a) = false) : hasByte p (l.take b) = false := by
  have := hasByte_take_le p (l.take a) b h
  rwa [List.take_take, Nat.min_eq_left hab] at this

theorem hasD2_take_mono (l : List UInt8) {a b : Nat} (hab : b ≤ a)
    (h : hasD2 (l.take a) = false) : hasD2 (l.take b) = false := by
  have := hasD2_take_le (l.take a) b h
  rwa [List.take_take, Nat.min_eq_left hab] at this

theorem hasByte_split (p : UInt8 → Bool) (l : List UInt8) (k : Nat)
    (h1 : hasByte p (l.take k) = false) (h2 : hasByte p (l.drop k) = false) : hasByte p l = false := by
  have : l = l.take k ++ l.drop k := (List.take_append_drop k l).symm
  rw [this, hasByte_append, h1, h2]; rfl

theorem startsDb_take_succ (l : List UInt8) (k : Nat) : startsDb (l.take (k + 1)) = startsDb l := by
  cases l <;> simp [startsDb]

/-- no digit pair up to index `k` (inclusive) and none from index `k` on: none at all -/
theorem hasD2_split (l : List UInt8) (k : Nat)
    (h1 : hasD2 (l.take (k + 1)) = false) (h2 : hasD2 (l.drop k) = false) : hasD2 l = false := by
  induction k generalizing l with
  | zero => simpa using h2
  | succ k ih =>
    cases l with
    | nil => simp [hasD2]
    | cons x t =>
      rw [List.take_succ_cons, hasD2_cons, startsDb_take_succ] at h1
      rw [List.drop_succ_cons] at h2
      simp only [Bool.or_eq_false_iff] at h1
      rw [hasD2_cons, h1.1, ih t h1.2 h2]; rfl

end S4V.Lemmas.Ezcheck
