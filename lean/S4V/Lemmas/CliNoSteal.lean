/-
First-match agreement for the `-a` / `-b` pattern rows (C14): what an EARLIER row of
`CLI_FILTER_PATTERNS` does with a value written in the grammar of a LATER row.

`process_dt` tries the rows in table order and takes the first that parses. For a pair
(earlier `rj`, later `ri`) one of two things is decided on the pattern items, by computable
analyses lifted by soundness lemmas:

* `refuses`  — `rj`'s items cannot consume (exactly) any value rendered through `ri`'s items
  (generalises `S4V.Lemmas.CliAbs.failsPair`: fractions `%3f` against `%6f`, zone items, `%Z`
  names, a signed `%Y` swallowing `+%s`, an unknown or known text after the items);
* `agreesF`  — `rj` refuses the value, or consumes it and ends with the SAME chrono `Parsed`
  record as `ri` itself (`%z` reading what `%:z` / `%#z` wrote, a pattern space more or less,
  `%#z` reading the zone NAME `Z` …); the same `Parsed` resolves to the same instant.

Layers: heads of a text (`Hd2`, `Sat`), `fails2` (one item list against a head), `refuses`,
`agreesF`, and their soundness for every `Fields.Valid` value.
-/
import S4V.Lemmas.CliAbs

namespace S4V.Lemmas.CliNoSteal
open S4V.Model.Cli S4V.Model.Time S4V.Gen.CliTables S4V.Lemmas.CliTime S4V.Lemmas.CliAbs

/-! ## how a text begins -/

inductive Hd2
  | empty
  | digit
  | lit (c : Char)
  /-- a numeric zone: `+`, `-`, U+2212, `Z` or `z` -/
  | zone
  /-- a zone name: an ASCII letter -/
  | alpha
  deriving DecidableEq, Repr

def isZoneHd (c : Char) : Bool := c == '+' || c == '-' || c == uminus || c == 'Z' || c == 'z'

/-- the characters a head stands for -/
def cls : Hd2 → Char → Bool
  | .empty, _ => false
  | .digit, c => isDig c
  | .lit c0, c => c == c0
  | .zone, c => isZoneHd c
  | .alpha, c => isAlpha c

def Sat (h : Hd2) : List Char → Prop
  | [] => h = .empty
  | c :: _ => cls h c = true

/-- no white space at the head (`trim_start` leaves the text alone) -/
def noWs : Hd2 → Bool
  | .lit c => !isWs c
  | _ => true

/-- no digit at the head -/
def noDig : Hd2 → Bool
  | .digit => false
  | .lit c => !isDig c
  | _ => true

/-- the head is not the character `c0` -/
def notC (c0 : Char) : Hd2 → Bool
  | .empty => true
  | .digit => !isDig c0
  | .lit c => c != c0
  | .zone => !isZoneHd c0
  | .alpha => !isAlpha c0

/-- `scan::timezone_offset` fails at the head -/
def noTz (perm : Bool) : Hd2 → Bool
  | .empty => true
  | .digit => true
  | .lit c => !isWs c && !isZoneHd c
  | .zone => false
  | .alpha => !perm

theorem isWs_of_isAlpha {c : Char} (h : isAlpha c = true) : isWs c = false := by
  simp [isAlpha] at h
  simp [isWs]
  omega

theorem isZoneHd_cases {c : Char} (h : isZoneHd c = true) :
    c = '+' ∨ c = '-' ∨ c = uminus ∨ c = 'Z' ∨ c = 'z' := by
  simpa [isZoneHd, or_assoc] using h

theorem noWs_sound (h : Hd2) (hh : noWs h = true) (c : Char) (hc : cls h c = true) : isWs c = false := by
  cases h with
  | empty => simp [cls] at hc
  | digit => exact isWs_of_isDig hc
  | lit c0 =>
    simp only [cls, beq_iff_eq] at hc
    subst hc
    simpa [noWs] using hh
  | zone => rcases isZoneHd_cases hc with e | e | e | e | e <;> subst e <;> decide
  | alpha => exact isWs_of_isAlpha hc

theorem noDig_sound (h : Hd2) (hh : noDig h = true) (c : Char) (hc : cls h c = true) : isDig c = false := by
  cases h with
  | empty => simp [cls] at hc
  | digit => simp [noDig] at hh
  | lit c0 =>
    simp only [cls, beq_iff_eq] at hc
    subst hc
    simpa [noDig] using hh
  | zone => rcases isZoneHd_cases hc with e | e | e | e | e <;> subst e <;> decide
  | alpha =>
    cases hd : isDig c with
    | false => rfl
    | true =>
      have ha : isAlpha c = true := hc
      rw [isAlpha_of_isDig hd] at ha; cases ha

theorem notC_sound (c0 : Char) (h : Hd2) (hh : notC c0 h = true) (c : Char) (hc : cls h c = true) : c ≠ c0 := by
  intro e
  subst e
  cases h with
  | empty => simp [cls] at hc
  | digit => simp [notC] at hh; simp [cls, hh] at hc
  | lit c1 => simp [notC] at hh; simp [cls] at hc; exact hh hc.symm
  | zone => simp [notC] at hh; simp [cls, hh] at hc
  | alpha => simp [notC] at hh; simp [cls, hh] at hc

def isSign (c : Char) : Bool := c == '+' || c == '-' || c.toNat == 0x2212

theorem scanTz_none (perm : Bool) (c : Char) (r : List Char)
    (h1 : (perm && (c == 'Z' || c == 'z')) = false) (h2 : isSign c = false) : scanTz perm (c :: r) = none := by
  simp only [isSign] at h2
  simp only [scanTz, h1, h2]
  simp

theorem toNat_of_beq {c d : Char} (h : (c == d) = true) : c.toNat = d.toNat := by
  simp only [beq_iff_eq] at h
  rw [h]

theorem noTz_sound (perm : Bool) (h : Hd2) (hh : noTz perm h = true) (c : Char) (hc : cls h c = true) (r : List Char) :
    isWs c = false ∧ scanTz perm (c :: r) = none := by
  have key : ∀ x : Char, (x.toNat ≠ 43 ∧ x.toNat ≠ 45 ∧ x.toNat ≠ 0x2212) → isSign x = false := by
    intro x hx
    cases h1 : (x == '+') with
    | true => exact absurd (toNat_of_beq h1) hx.1
    | false =>
      cases h2 : (x == '-') with
      | true => exact absurd (toNat_of_beq h2) hx.2.1
      | false => simp [isSign, h1, h2, hx.2.2]
  have keyZ : ∀ x : Char, (x.toNat ≠ 90 ∧ x.toNat ≠ 122) → (x == 'Z' || x == 'z') = false := by
    intro x hx
    cases h1 : (x == 'Z') with
    | true => exact absurd (toNat_of_beq h1) hx.1
    | false =>
      cases h2 : (x == 'z') with
      | true => exact absurd (toNat_of_beq h2) hx.2
      | false => rfl
  cases h with
  | empty => simp [cls] at hc
  | digit =>
    have hd : isDig c = true := hc
    refine ⟨isWs_of_isDig hd, scanTz_none perm c r ?_ ?_⟩
    · simp only [isDig, Bool.and_eq_true, decide_eq_true_eq] at hd
      rw [keyZ c (by omega)]; simp
    · simp only [isDig, Bool.and_eq_true, decide_eq_true_eq] at hd
      exact key c (by omega)
  | lit c0 =>
    simp only [cls, beq_iff_eq] at hc
    subst hc
    simp only [noTz, Bool.and_eq_true, Bool.not_eq_true'] at hh
    refine ⟨hh.1, scanTz_none perm c r ?_ ?_⟩
    · have := hh.2
      simp only [isZoneHd, Bool.or_eq_false_iff] at this
      simp [this.1.2, this.2]
    · have := hh.2
      simp only [isZoneHd, Bool.or_eq_false_iff] at this
      obtain ⟨⟨⟨⟨a, b⟩, d⟩, _⟩, _⟩ := this
      have d' : c.toNat ≠ 0x2212 := by
        intro e
        have : c = uminus := by
          apply Char.ext
          apply UInt32.toNat_inj.mp
          exact e
        simp [this] at d
      simp [isSign, a, b, d']
  | zone => simp [noTz] at hh
  | alpha =>
    have ha : isAlpha c = true := hc
    simp only [noTz, Bool.not_eq_true'] at hh
    subst hh
    refine ⟨isWs_of_isAlpha ha, scanTz_none false c r rfl ?_⟩
    simp only [isAlpha, Bool.or_eq_true, Bool.and_eq_true, decide_eq_true_eq] at ha
    exact key c (by omega)

/-! ## one item list against a head -/

/-- `its` cannot consume exactly a text that begins as `h` says -/
def fails2 : List Item → Hd2 → Bool
  | [], h => h != .empty
  | .space :: r, h => noWs h && fails2 r h
  | .lit c :: _, h => notC c h
  | .nano _ :: _, h => noDig h
  | .tz perm :: _, h => noTz perm h
  | .month :: _, h | .day :: _, h | .hour :: _, h | .minute :: _, h | .second :: _, h => noWs h && noDig h
  | _, _ => false

theorem trimStart_sat (h : Hd2) (t : List Char) (hs : Sat h t) (hw : noWs h = true) : trimStart t = t := by
  cases t with
  | nil => rfl
  | cons c r => exact trimStart_of_head c r (noWs_sound h hw c hs)

theorem scanNumber_nodigit (t : List Char) (mn mx : Nat) (h : ∀ c r, t = c :: r → isDig c = false) :
    scanNumber t mn mx = none := by
  have : (takeDigits mx t).1 = [] := by
    cases mx with
    | zero => rfl
    | succ n =>
      cases t with
      | nil => rfl
      | cons c r => simp [takeDigits, h c r rfl]
  simp [scanNumber, this]

theorem fails2_sound (its : List Item) (h : Hd2) (t : List Char) (hs : Sat h t) (p : Parsed)
    (hf : fails2 its h = true) : ∀ P, parseItems its t p ≠ some (P, []) := by
  induction its generalizing p with
  | nil =>
    intro P e
    simp only [parseItems, Option.some.injEq, Prod.mk.injEq] at e
    rw [e.2] at hs
    simp only [Sat] at hs
    subst hs
    simp [fails2] at hf
  | cons a r ih =>
    have nodig : noDig h = true → ∀ c r', t = c :: r' → isDig c = false := by
      intro hd c r' e
      subst e
      exact noDig_sound h hd c hs
    have two : ∀ it, isTwo it = true → (noWs h && noDig h) = true → ∀ P, parseItems (it :: r) t p ≠ some (P, []) := by
      intro it hi hc P
      simp only [Bool.and_eq_true] at hc
      have : parseItem it t p = none := by
        apply parseItem_two_none it hi
        rw [trimStart_sat h t hs hc.1]
        cases t with
        | nil => exact Or.inl rfl
        | cons c r' => exact Or.inr ⟨c, r', rfl, nodig hc.2 c r' rfl⟩
      simp [parseItems, this]
    cases a with
    | space =>
      simp only [fails2, Bool.and_eq_true] at hf
      intro P
      simp only [parseItems, parseItem, Option.bind_some, trimStart_sat h t hs hf.1]
      exact ih p hf.2 P
    | lit c =>
      intro P
      have : parseItem (.lit c) t p = none := by
        cases t with
        | nil => rfl
        | cons c' r' =>
          have := notC_sound c h (by simpa [fails2] using hf) c' hs
          simp [parseItem, this]
      simp [parseItems, this]
    | nano k =>
      intro P
      have : parseItem (.nano k) t p = none := by
        simp [parseItem, scanNumber_nodigit t k k (nodig (by simpa [fails2] using hf))]
      simp [parseItems, this]
    | tz perm =>
      intro P
      have hf' : noTz perm h = true := by simpa [fails2] using hf
      have : parseItem (.tz perm) t p = none := by
        cases t with
        | nil => simp [parseItem, trimStart, scanTz]
        | cons c r' =>
          obtain ⟨hw, hn⟩ := noTz_sound perm h hf' c hs r'
          simp [parseItem, trimStart_of_head c r' hw, hn]
      simp [parseItems, this]
    | month => exact two _ rfl (by simpa [fails2] using hf)
    | day => exact two _ rfl (by simpa [fails2] using hf)
    | hour => exact two _ rfl (by simpa [fails2] using hf)
    | minute => exact two _ rfl (by simpa [fails2] using hf)
    | second => exact two _ rfl (by simpa [fails2] using hf)
    | year => simp [fails2] at hf
    | timestamp => simp [fails2] at hf
    | tzName => simp [fails2] at hf
    | bad => simp [fails2] at hf

/-! ## the head of a rendered item list -/

/-- how `renderItems g ii ++ tail` begins; `th` says how `tail` begins (`none` = unknown) -/
def hdOf2 (th : Option Hd2) : List Item → Option Hd2
  | [] => th
  | .lit c :: _ => some (.lit c)
  | .space :: _ => some (.lit ' ')
  | .year :: _ | .month :: _ | .day :: _ | .hour :: _ | .minute :: _ | .second :: _ | .timestamp :: _ => some .digit
  | .nano k :: _ => if k == 3 || k == 6 then some .digit else none
  | .tz _ :: _ => some .zone
  | .tzName :: _ => some .alpha
  | .bad :: _ => none

/-- table fact: the empty string is not a zone name -/
theorem lookupTz_nil : lookupTz [] = none := by decide +kernel

theorem zname_ok (g : Fields) (hg : g.Valid) : g.zname ≠ [] ∧ ∀ c ∈ g.zname, isAlpha c = true := by
  obtain ⟨z, hl, hz⟩ := hg.zname
  refine ⟨?_, (lookupTz_spec g.zname z hl hz).1⟩
  intro e
  rw [e, lookupTz_nil] at hl
  cases hl

theorem sat_cons_append (h : Hd2) (c : Char) (t rest : List Char) (hc : cls h c = true) :
    Sat h ((c :: t) ++ rest) := hc

theorem hdOf2_sat (g : Fields) (hg : g.Valid) (th : Option Hd2) (tail : List Char)
    (hth : ∀ h, th = some h → Sat h tail) (ii : List Item) (h : Hd2) (e : hdOf2 th ii = some h) :
    Sat h (renderItems g ii ++ tail) := by
  have dig : ∀ k n (rest : List Char), 1 ≤ k → Sat .digit (pad k n ++ rest) := by
    intro k n rest hk
    obtain ⟨c, t, e, hc⟩ := pad_head k n hk
    rw [e]; exact hc
  cases ii with
  | nil => exact hth h e
  | cons b r =>
    simp only [renderItems, List.append_assoc]
    cases b with
    | lit c => simp only [hdOf2, Option.some.injEq] at e; subst e; simp [renderItem, Sat, cls]
    | space => simp only [hdOf2, Option.some.injEq] at e; subst e; simp [renderItem, Sat, cls]
    | year => simp only [hdOf2, Option.some.injEq] at e; subst e; exact dig 4 _ _ (by decide)
    | month => simp only [hdOf2, Option.some.injEq] at e; subst e; exact dig 2 _ _ (by decide)
    | day => simp only [hdOf2, Option.some.injEq] at e; subst e; exact dig 2 _ _ (by decide)
    | hour => simp only [hdOf2, Option.some.injEq] at e; subst e; exact dig 2 _ _ (by decide)
    | minute => simp only [hdOf2, Option.some.injEq] at e; subst e; exact dig 2 _ _ (by decide)
    | second => simp only [hdOf2, Option.some.injEq] at e; subst e; exact dig 2 _ _ (by decide)
    | timestamp =>
      simp only [hdOf2, Option.some.injEq] at e; subst e
      obtain ⟨c, t, e⟩ := List.exists_cons_of_ne_nil hg.ts_ne
      simp only [renderItem, e]
      exact hg.ts_dig c (by simp [e])
    | nano k =>
      simp only [hdOf2] at e
      split at e
      · rename_i hk
        simp only [Option.some.injEq] at e; subst e
        simp only [Bool.or_eq_true, beq_iff_eq] at hk
        exact dig k _ _ (by omega)
      · cases e
    | tz perm =>
      simp only [hdOf2, Option.some.injEq] at e; subst e
      have hsg : isZoneHd g.zsign = true := by
        rcases hg.zsign with h | h | h <;> rw [h] <;> decide
      cases hst : g.zstyle <;> simp only [renderItem, renderZone, hst, List.cons_append] <;>
        first | exact hsg | exact (by decide : isZoneHd 'Z' = true) | exact (by decide : isZoneHd 'z' = true)
    | tzName =>
      simp only [hdOf2, Option.some.injEq] at e; subst e
      obtain ⟨hne, hal⟩ := zname_ok g hg
      obtain ⟨c, t, e⟩ := List.exists_cons_of_ne_nil hne
      simp only [renderItem, e]
      exact hal c (by simp [e])
    | bad => simp [hdOf2] at e

/-! ## refusal: an item list against a rendered item list -/

/-- items that `trim_start` before reading -/
def trims : Item → Bool
  | .year | .month | .day | .hour | .minute | .second | .timestamp | .tz _ => true
  | _ => false

theorem trimStart_space (t : List Char) : trimStart (' ' :: t) = trimStart t := by
  simp [trimStart, List.dropWhile, show isWs ' ' = true by decide]

theorem parseItem_skip_space (a : Item) (ha : trims a = true) (t : List Char) (p : Parsed) :
    parseItem a (' ' :: t) p = parseItem a t p := by
  cases a <;> simp [trims] at ha <;> simp only [parseItem, trimStart_space]


/-- an item equal on both sides reads its own text whatever follows -/
def lock (th : Option Hd2) (a : Item) (ri : List Item) : Bool :=
  plain a || a == .nano 3 || a == .nano 6 ||
  (a == .space && match hdOf2 th ri with | some h => noWs h | none => false)

/-- the items `ij` cannot consume exactly any text `renderItems g ii ++ tail` (`th`: how `tail` begins) -/
def refuses (th : Option Hd2) : List Item → List Item → Bool
  | [], ri => match hdOf2 th ri with | some h => h != .empty | none => false
  | a :: rj, [] => match th with | some h => fails2 (a :: rj) h | none => false
  | a :: rj, b :: ri =>
    if a == b && lock th a ri then refuses th rj ri
    else if a == .year && b == .lit '+' then
      -- a signed `%Y` reads every digit of `+%s`
      match ri with
      | .timestamp :: ri' => (match hdOf2 th ri' with | some h => noDig h | none => false) && refuses th rj ri'
      | _ => false
    -- a written space in front of an item that trims: what follows the space decides
    else if b == .space && trims a then (match hdOf2 th ri with | some h => fails2 (a :: rj) h | none => false)
    else if a == .nano 3 && b == .nano 6 then fails2 rj .digit
    else if a == .nano 6 && b == .nano 3 then (match hdOf2 th ri with | some h => noDig h | none => false)
    else match hdOf2 th (b :: ri) with | some h => fails2 (a :: rj) h | none => false

theorem restOk_lock (g : Fields) (hg : g.Valid) (th : Option Hd2) (tail : List Char)
    (hth : ∀ h, th = some h → Sat h tail) (a : Item) (ri : List Item) (h : lock th a ri = true) :
    RestOk a (renderItems g ri ++ tail) := by
  simp only [lock, Bool.or_eq_true, Bool.and_eq_true, beq_iff_eq] at h
  rcases h with ((h | h) | h) | h
  · exact restOk_plain a h _
  · subst h; exact .nano3 _
  · subst h; exact .nano6 _
  · obtain ⟨ha, hh⟩ := h
    subst ha
    cases hq : hdOf2 th ri with
    | none => simp [hq] at hh
    | some hd' =>
      simp only [hq] at hh
      exact .space _ (trimStart_sat hd' _ (hdOf2_sat g hg th tail hth ri hd' hq) hh)

theorem pad6_split (n : Nat) : pad 6 n = pad 3 (n / 1000) ++ pad 3 n := by
  simp [pad, Nat.div_div_eq_div_mul]

theorem refuses_sound (g : Fields) (hg : g.Valid) (th : Option Hd2) (tail : List Char)
    (hth : ∀ h, th = some h → Sat h tail) (ij ii : List Item) (p : Parsed)
    (h : refuses th ij ii = true) (hd : distinctSlots ij = true) (hn : ∀ it ∈ ij, getField it p = none) :
    ∀ P, parseItems ij (renderItems g ii ++ tail) p ≠ some (P, []) := by
  induction ij generalizing ii p with
  | nil =>
    simp only [refuses] at h
    cases hq : hdOf2 th ii with
    | none => simp [hq] at h
    | some hd' =>
      simp only [hq] at h
      exact fails2_sound [] hd' _ (hdOf2_sat g hg th tail hth ii hd' hq) p (by simpa [fails2] using h)
  | cons a rj ih =>
    cases ii with
    | nil =>
      simp only [refuses] at h
      cases hq : th with
      | none => simp [hq] at h
      | some hd' =>
        simp only [hq] at h
        exact fails2_sound (a :: rj) hd' _ (by simpa [renderItems] using hth hd' hq) p h
    | cons b ri =>
      simp only [refuses] at h
      have general : (match hdOf2 th (b :: ri) with | some h => fails2 (a :: rj) h | none => false) = true →
          ∀ P, parseItems (a :: rj) (renderItems g (b :: ri) ++ tail) p ≠ some (P, []) := by
        intro h
        cases hq : hdOf2 th (b :: ri) with
        | none => simp [hq] at h
        | some hd' =>
          simp only [hq] at h
          exact fails2_sound (a :: rj) hd' _ (hdOf2_sat g hg th tail hth _ hd' hq) p h
      by_cases hc : (a == b && lock th a ri) = true
      · simp only [hc, if_true] at h
        simp only [Bool.and_eq_true, beq_iff_eq] at hc
        obtain ⟨hab, hl⟩ := hc
        subst hab
        simp only [distinctSlots, Bool.and_eq_true, List.all_eq_true, Bool.not_eq_true'] at hd
        have hro := restOk_lock g hg th tail hth a ri hl
        have hst : a = .tz false → g.zstyle = .compact ∨ g.zstyle = .colon := by
          intro e; subst e; cases hro
          all_goals simp [lock, plain] at hl
        have h1 := parseItem_render g hg a (renderItems g ri ++ tail) p hst hro (hn a (by simp))
        intro P
        simp only [parseItems, renderItems, List.append_assoc, h1, Option.bind_some]
        apply ih ri _ h hd.2
        intro j hj
        rw [getField_applyItem_other g j a p (by rw [sameSlot_comm]; exact hd.1 j hj)]
        exact hn j (by simp [hj])
      · simp only [hc, Bool.false_eq_true, if_false] at h
        by_cases hy : (a == Item.year && b == Item.lit '+') = true
        · simp only [hy, if_true] at h
          simp only [Bool.and_eq_true, beq_iff_eq] at hy
          obtain ⟨ha, hb⟩ := hy
          subst ha; subst hb
          cases ri with
          | nil => simp at h
          | cons b2 ri' =>
            cases b2 <;> simp only [Bool.false_eq_true] at h
            simp only [Bool.and_eq_true] at h
            cases hq : hdOf2 th ri' with
            | none => simp [hq] at h
            | some hd' =>
              simp only [hq] at h
              have hsat := hdOf2_sat g hg th tail hth ri' hd' hq
              have hyn : p.year = none := by simpa [getField] using hn .year (by simp)
              intro P
              have hstop : takeDigits (g.ts ++ (renderItems g ri' ++ tail)).length (g.ts ++ (renderItems g ri' ++ tail)) =
                  (g.ts, renderItems g ri' ++ tail) := by
                apply takeDigits_stop _ _ _ hg.ts_dig (by simp)
                intro c r e
                rw [e] at hsat
                exact noDig_sound hd' h.1 c hsat
              have hv : ¬ numVal g.ts > i64Max := by
                have := hg.ts_le
                have : tsMax ≤ i64Max := by decide
                omega
              have hl : ¬ (g.ts.length < 1 ∨ g.ts.length = 0) := by
                have : g.ts.length ≠ 0 := by simpa using hg.ts_ne
                omega
              have hscan : scanNumber (g.ts ++ (renderItems g ri' ++ tail)) 1 (g.ts ++ (renderItems g ri' ++ tail)).length =
                  some (numVal g.ts, renderItems g ri' ++ tail) := by
                simp only [scanNumber, hstop, hl, hv, if_false]
              have h1 : parseItem .year (renderItems g (.lit '+' :: .timestamp :: ri') ++ tail) p =
                  some ({ p with year := some (numVal g.ts : Int) }, renderItems g ri' ++ tail) := by
                simp only [renderItems, renderItem, List.cons_append, List.nil_append, List.append_assoc, parseItem]
                rw [trimStart_of_head '+' _ (by decide)]
                simp only [hscan, hyn, setF, Option.bind_some, Option.map_some]
              simp only [parseItems, h1, Option.bind_some]
              simp only [distinctSlots, Bool.and_eq_true, List.all_eq_true, Bool.not_eq_true'] at hd
              apply ih ri' _ h.2 hd.2
              intro j hj
              have hs := hd.1 j hj
              have : getField j { p with year := some (numVal g.ts : Int) } = getField j p := by
                cases j <;> first | rfl | simp [sameSlot] at hs
              rw [this]
              exact hn j (by simp [hj])
        · simp only [hy, Bool.false_eq_true, if_false] at h
          by_cases hsp : (b == Item.space && trims a) = true
          · simp only [hsp, if_true] at h
            simp only [Bool.and_eq_true, beq_iff_eq] at hsp
            obtain ⟨hb, ht⟩ := hsp
            subst hb
            cases hq : hdOf2 th ri with
            | none => simp [hq] at h
            | some hd' =>
              simp only [hq] at h
              have hsat := hdOf2_sat g hg th tail hth ri hd' hq
              intro P
              have := fails2_sound (a :: rj) hd' _ hsat p h P
              simpa [parseItems, renderItems, renderItem, parseItem_skip_space a ht] using this
          simp only [hsp, Bool.false_eq_true, if_false] at h
          by_cases h36 : (a == Item.nano 3 && b == Item.nano 6) = true
          · simp only [h36, if_true] at h
            simp only [Bool.and_eq_true, beq_iff_eq] at h36
            obtain ⟨ha, hb⟩ := h36
            subst ha; subst hb
            have hnn : p.nano = none := by simpa [getField] using hn (.nano 3) (by simp)
            intro P
            have hv : numVal (pad 3 (g.micro / 1000)) ≤ i64Max := by
              rw [numVal_pad]
              have : g.micro / 1000 % 10 ^ 3 < 1000 := Nat.mod_lt _ (by decide)
              have : (1000 : Nat) ≤ i64Max := by decide
              omega
            have hs := scanNumber_exact (pad 3 (g.micro / 1000)) (pad 3 g.micro ++ (renderItems g ri ++ tail)) 3
              (pad_ne_nil 3 _ (by decide)) (by rw [length_pad]; exact Nat.le_refl _) (pad_digits 3 _) hv
            rw [length_pad] at hs
            have h1 : ∃ p', parseItem (.nano 3) (renderItems g (.nano 6 :: ri) ++ tail) p =
                some (p', pad 3 g.micro ++ (renderItems g ri ++ tail)) := by
              refine ⟨{ p with nano := some ((numVal (pad 3 (g.micro / 1000)) * 10 ^ (9 - 3) : Nat) : Int) }, ?_⟩
              simp only [renderItems, renderItem, Fields.fracVal, List.append_assoc, parseItem]
              rw [show (if (6 : Nat) = 3 then g.milli else g.micro) = g.micro from rfl, pad6_split,
                List.append_assoc, hs]
              simp only [hnn, setF, Option.bind_some, Option.map_some]
            obtain ⟨p', h1⟩ := h1
            simp only [parseItems, h1, Option.bind_some]
            refine fails2_sound rj .digit _ ?_ _ h P
            obtain ⟨c, t, e, hc⟩ := pad_head 3 g.micro (by decide)
            rw [e]; exact hc
          · simp only [h36, Bool.false_eq_true, if_false] at h
            by_cases h63 : (a == Item.nano 6 && b == Item.nano 3) = true
            · simp only [h63, if_true] at h
              simp only [Bool.and_eq_true, beq_iff_eq] at h63
              obtain ⟨ha, hb⟩ := h63
              subst ha; subst hb
              cases hq : hdOf2 th ri with
              | none => simp [hq] at h
              | some hd' =>
                simp only [hq] at h
                have hsat := hdOf2_sat g hg th tail hth ri hd' hq
                intro P
                have hstop : takeDigits 6 (pad 3 g.milli ++ (renderItems g ri ++ tail)) =
                    (pad 3 g.milli, renderItems g ri ++ tail) := by
                  apply takeDigits_stop _ _ _ (pad_digits 3 _) (by rw [length_pad]; decide)
                  intro c r e
                  rw [e] at hsat
                  exact noDig_sound hd' h c hsat
                have h1 : parseItem (.nano 6) (renderItems g (.nano 3 :: ri) ++ tail) p = none := by
                  simp only [renderItems, renderItem, Fields.fracVal, List.append_assoc, parseItem, if_true,
                    scanNumber, hstop, length_pad]
                  simp
                simp [parseItems, h1]
            · simp only [h63, Bool.false_eq_true, if_false] at h
              exact general h

/-! ## agreement: refuse, or end with the same `Parsed` -/

/-- what a rendered item leaves in `Parsed` when its text is read by the row itself; a zone NAME
stands for the numeric zone `process_dt` substitutes for it -/
def applyItemZ (g : Fields) (it : Item) (p : Parsed) : Parsed :=
  if it = .tzName then { p with offset := some g.zoneOff } else applyItem g it p

def applyItemsZ (g : Fields) : List Item → Parsed → Parsed
  | [], p => p
  | it :: its, p => applyItemsZ g its (applyItemZ g it p)

/-- `%Z` rewritten to `%z` -/
def zFix (ii : List Item) : List Item := ii.map fun it => if it = .tzName then .tz false else it

theorem applyItemsZ_eq (g : Fields) (ii : List Item) (p : Parsed) : applyItemsZ g ii p = applyItems g (zFix ii) p := by
  induction ii generalizing p with
  | nil => rfl
  | cons a r ih =>
    simp only [applyItemsZ, zFix, List.map_cons, applyItems]
    rw [ih]
    by_cases e : a = .tzName
    · subst e; rfl
    · simp [applyItemZ, e, zFix]

/-- an item equal on both sides that reads its own text in front of `renderItems g ri` -/
def lockA (a : Item) (ri : List Item) : Bool :=
  lock (some .empty) a ri || a == .tz false || ((a == .tz true || a == .timestamp) && ri.isEmpty)

/-- `ij` either cannot consume a value rendered through `ii`, or consumes it leaving what `ii` leaves -/
def agreesF : Nat → List Item → List Item → Bool
  | 0, _, _ => false
  | n + 1, ij, ii =>
    match ij, ii with
    | [], [] => true
    | [], b :: ri => refuses (some .empty) [] (b :: ri)
    | a :: rj, [] => if a == .space then agreesF n rj [] else refuses (some .empty) (a :: rj) []
    | a :: rj, b :: ri =>
      if a == b && lockA a ri then agreesF n rj ri
      -- `%z` / `%:z` reading what `%#z` wrote: the same offset, or (`±HH`, `Z`) refused
      else if a == .tz false && b == .tz true && ri.isEmpty then agreesF n rj []
      -- a pattern space in front of a solid text reads nothing
      else if a == .space && (match hdOf2 (some .empty) (b :: ri) with | some h => noWs h | none => false) then
        agreesF n rj (b :: ri)
      -- a written space in front of an item that trims
      else if b == .space && trims a then agreesF n (a :: rj) ri
      -- `%#z` reading a zone name: only `Z` / `z`, as UTC
      else if a == .tz true && rj.isEmpty && b == .tzName && ri.isEmpty then true
      else refuses (some .empty) (a :: rj) (b :: ri)

theorem agreesF_sound (g : Fields) (hg : g.Valid) (n : Nat) (ij ii : List Item) (p : Parsed)
    (h : agreesF n ij ii = true) (hst : styleOk g ii = true)
    (hz : Item.tzName ∈ ii → (g.zname = ['Z'] ∨ g.zname = ['z']) → g.zoneOff = 0)
    (hd : distinctSlots ij = true) (hn : ∀ it ∈ ij, getField it p = none) :
    (∀ P, parseItems ij (renderItems g ii) p ≠ some (P, [])) ∨
      parseItems ij (renderItems g ii) p = some (applyItemsZ g ii p, []) := by
  have hnil : ∀ h, some Hd2.empty = some h → Sat h ([] : List Char) := by
    intro h e; injection e with e; subst e; rfl
  have refl : ∀ ij ii p, refuses (some .empty) ij ii = true → distinctSlots ij = true →
      (∀ it ∈ ij, getField it p = none) → ∀ P, parseItems ij (renderItems g ii) p ≠ some (P, []) := by
    intro ij ii p h hd hn
    have := refuses_sound g hg (some .empty) [] hnil ij ii p h hd hn
    simpa using this
  induction n generalizing ij ii p with
  | zero => simp [agreesF] at h
  | succ n ih =>
    cases ij with
    | nil =>
      cases ii with
      | nil => right; rfl
      | cons b ri =>
        left
        exact refl [] (b :: ri) p (by simpa [agreesF] using h) hd hn
    | cons a rj =>
      have hd2 : distinctSlots rj = true := by
        simp only [distinctSlots, Bool.and_eq_true] at hd; exact hd.2
      have hn2 : ∀ it ∈ rj, getField it p = none := fun it hi => hn it (by simp [hi])
      cases ii with
      | nil =>
        simp only [agreesF] at h
        by_cases ha : (a == Item.space) = true
        · simp only [ha, if_true] at h
          simp only [beq_iff_eq] at ha
          subst ha
          have := ih rj [] p h hst hz hd2 hn2
          simpa [parseItems, parseItem, renderItems, trimStart] using this
        · simp only [ha, Bool.false_eq_true, if_false] at h
          left
          exact refl (a :: rj) [] p h hd hn
      | cons b ri =>
        simp only [agreesF] at h
        have hst2 : styleOk g ri = true := by
          simp only [styleOk, List.all_cons, Bool.and_eq_true] at hst; exact hst.2
        have hz2 : Item.tzName ∈ ri → (g.zname = ['Z'] ∨ g.zname = ['z']) → g.zoneOff = 0 :=
          fun hm => hz (List.mem_cons_of_mem _ hm)
        have hnafter : ∀ q, (∀ j ∈ rj, sameSlot a j = false) → ∀ j ∈ rj, getField j (applyItem g a q) = getField j q := by
          intro q hs j hj
          exact getField_applyItem_other g j a q (by rw [sameSlot_comm]; exact hs j hj)
        have hslots : ∀ j ∈ rj, sameSlot a j = false := by
          simp only [distinctSlots, Bool.and_eq_true, List.all_eq_true, Bool.not_eq_true'] at hd
          exact hd.1
        by_cases hc : (a == b && lockA a ri) = true
        · simp only [hc, if_true] at h
          simp only [Bool.and_eq_true, beq_iff_eq] at hc
          obtain ⟨hab, hl⟩ := hc
          subst hab
          have hro : RestOk a (renderItems g ri) := by
            simp only [lockA, Bool.or_eq_true, Bool.and_eq_true, beq_iff_eq, List.isEmpty_iff] at hl
            rcases hl with (hl | hl) | hl
            · have := restOk_lock g hg (some .empty) [] hnil a ri hl
              simpa using this
            · subst hl; exact .tzStrict _
            · obtain ⟨ha, hr⟩ := hl
              subst hr
              rcases ha with ha | ha <;> subst ha
              · exact .tzPerm
              · exact .timestamp
          have hst1 : a = .tz false → g.zstyle = .compact ∨ g.zstyle = .colon := by
            intro e
            simp only [styleOk, List.all_cons, Bool.and_eq_true] at hst
            have := hst.1
            simp [e] at this
            exact this
          have hne : a ≠ .tzName := by intro e; subst e; cases hro
          have h1 := parseItem_render g hg a (renderItems g ri) p hst1 hro (hn a (by simp))
          have := ih rj ri (applyItem g a p) h hst2 hz2 hd2
            (fun j hj => by rw [hnafter p hslots j hj]; exact hn2 j hj)
          simpa [parseItems, renderItems, h1, applyItemsZ, applyItemZ, hne] using this
        · simp only [hc, Bool.false_eq_true, if_false] at h
          by_cases hB : (a == Item.tz false && b == Item.tz true && ri.isEmpty) = true
          · simp only [hB, if_true] at h
            simp only [Bool.and_eq_true, beq_iff_eq, List.isEmpty_iff] at hB
            obtain ⟨⟨ha, hb⟩, hr⟩ := hB
            subst ha; subst hb; subst hr
            by_cases hsty : g.zstyle = .compact ∨ g.zstyle = .colon
            · have h1 := parseItem_render g hg (.tz false) [] p (fun _ => hsty) (.tzStrict _) (hn _ (by simp))
              have := ih rj [] (applyItem g (.tz false) p) h (by rfl) (by simp) hd2
                (fun j hj => by rw [hnafter p hslots j hj]; exact hn2 j hj)
              have e : renderItems g [Item.tz true] = renderItem g (.tz false) := by
                simp [renderItems, renderItem]
              rw [e]
              rw [List.append_nil] at h1
              simpa [parseItems, h1, applyItemsZ, applyItemZ, applyItem, valueOf, renderItems] using this
            · left
              intro P
              have hnone : parseItem (.tz false) (renderItems g [Item.tz true]) p = none := by
                have hsg := isWs_sign _ hg.zsign
                have d1 := isDig_digitChar (g.zh / 10)
                have d2 := isDig_digitChar g.zh
                cases hs : g.zstyle with
                | compact => exact absurd (Or.inl hs) hsty
                | colon => exact absurd (Or.inr hs) hsty
                | hours =>
                  simp only [renderItems, renderItem, renderZone, hs, pad2, List.append_nil, parseItem]
                  rw [trimStart_of_head _ _ hsg, scanTz_sign false _ hg.zsign]
                  simp [d1, d2, List.dropWhile]
                | zuluU => simp [renderItems, renderItem, renderZone, hs, parseItem, trimStart, isWs, scanTz]
                | zuluL => simp [renderItems, renderItem, renderZone, hs, parseItem, trimStart, isWs, scanTz]
              simp [parseItems, hnone]
          · simp only [hB, Bool.false_eq_true, if_false] at h
            by_cases hC : (a == Item.space && (match hdOf2 (some .empty) (b :: ri) with | some h => noWs h | none => false)) = true
            · simp only [hC, if_true] at h
              simp only [Bool.and_eq_true, beq_iff_eq] at hC
              obtain ⟨ha, hw⟩ := hC
              subst ha
              cases hq : hdOf2 (some .empty) (b :: ri) with
              | none => simp [hq] at hw
              | some hd' =>
                simp only [hq] at hw
                have hsat := hdOf2_sat g hg (some .empty) [] hnil (b :: ri) hd' hq
                rw [List.append_nil] at hsat
                have := ih rj (b :: ri) p h hst hz hd2 hn2
                simpa [parseItems, parseItem, trimStart_sat hd' _ hsat hw] using this
            · simp only [hC, Bool.false_eq_true, if_false] at h
              by_cases hD : (b == Item.space && trims a) = true
              · simp only [hD, if_true] at h
                simp only [Bool.and_eq_true, beq_iff_eq] at hD
                obtain ⟨hb, ht⟩ := hD
                subst hb
                have := ih (a :: rj) ri p h hst2 hz2 hd hn
                simpa [parseItems, renderItems, renderItem, parseItem_skip_space a ht, applyItemsZ, applyItemZ, applyItem] using this
              · simp only [hD, Bool.false_eq_true, if_false] at h
                by_cases hZ : (a == Item.tz true && rj.isEmpty && b == Item.tzName && ri.isEmpty) = true
                · simp only [Bool.and_eq_true, beq_iff_eq, List.isEmpty_iff] at hZ
                  obtain ⟨⟨⟨ha, hr⟩, hb⟩, hi⟩ := hZ
                  subst ha; subst hr; subst hb; subst hi
                  obtain ⟨hne, hal⟩ := zname_ok g hg
                  obtain ⟨c, t, e⟩ := List.exists_cons_of_ne_nil hne
                  have hca : isAlpha c = true := hal c (by simp [e])
                  have hoff : p.offset = none := by simpa [getField] using hn (.tz true) (by simp)
                  have htrim : trimStart (c :: t) = c :: t := trimStart_of_head c t (isWs_of_isAlpha hca)
                  by_cases hzu : (c == 'Z' || c == 'z') = true
                  · cases t with
                    | nil =>
                      right
                      have hname : g.zname = ['Z'] ∨ g.zname = ['z'] := by
                        simp only [Bool.or_eq_true, beq_iff_eq] at hzu
                        rcases hzu with h | h <;> subst h
                        · exact Or.inl e
                        · exact Or.inr e
                      have h0 := hz (by simp) hname
                      simp only [parseItems, renderItems, renderItem, e, List.append_nil, parseItem, htrim,
                        scanTz, hzu, Bool.true_and, if_true, Option.bind_some, hoff, setF, Option.map_some,
                        applyItemsZ, applyItemZ, h0]
                    | cons c2 t2 =>
                      left
                      intro P
                      simp only [parseItems, renderItems, renderItem, e, List.append_nil, parseItem, htrim,
                        scanTz, hzu, Bool.true_and, if_true, Option.bind_some, hoff, setF, Option.map_some]
                      simp
                  · left
                    intro P
                    have hsn : isSign c = false := by
                      have ha' := hca
                      simp only [isAlpha, Bool.or_eq_true, Bool.and_eq_true, decide_eq_true_eq] at ha'
                      cases h1 : (c == '+') with
                      | true => have := toNat_of_beq h1; simp at this; omega
                      | false =>
                        cases h2 : (c == '-') with
                        | true => have := toNat_of_beq h2; simp at this; omega
                        | false =>
                          have : c.toNat ≠ 0x2212 := by omega
                          simp [isSign, h1, h2, this]
                    have hnone : parseItem (.tz true) (renderItems g [Item.tzName]) p = none := by
                      simp only [renderItems, renderItem, e, List.append_nil, parseItem, htrim]
                      rw [scanTz_none true c t (by simpa using hzu) hsn]
                      rfl
                    simp [parseItems, hnone]
                · simp only [hZ, Bool.false_eq_true, if_false] at h
                  left
                  exact refl (a :: rj) (b :: ri) p h hd hn

/-! ## `datetime_parse_from_str` depends on the value only through `Parsed` and the white-space check -/

/-- `datetime_parse_from_str` after chrono's `parse`: resolution of the `Parsed` record -/
def resolveP (p : Parsed) (hasTz : Bool) (tzOff : Int) (ok660 : Bool) : Option DT :=
  if hasTz then
    let offset? : Option Int := match p.offset, p.timestamp with
      | some o, _ => some o
      | none, some _ => some 0
      | none, none => none
    match offset? with
    | none => none
    | some o =>
      match toNaive p o with
      | none => none
      | some (loc, frac) =>
        if -86400 < o && o < 86400 && inRange (loc - o) && ok660 then some ⟨loc - o, frac, o⟩ else none
  else
    match toNaive p 0 with
    | none => none
    | some (loc, frac) =>
      if inRange (loc - tzOff) && ok660 then some ⟨loc - tzOff, frac, tzOff⟩ else none

theorem dtParse_factor (d pat : List Char) (hasTz : Bool) (tz : Int) :
    datetimeParseFromStr d pat hasTz tz =
      match strptimeCliL pat d with
      | none => none
      | some p => resolveP p hasTz tz (issue660 d pat) := by
  unfold datetimeParseFromStr resolveP
  cases strptimeCliL pat d <;> rfl

theorem resolveP_false (p : Parsed) (hasTz : Bool) (tz : Int) : resolveP p hasTz tz false = none := by
  unfold resolveP
  cases hasTz <;> simp only [Bool.and_false, Bool.false_eq_true, if_false, if_true] <;> (repeat' split) <;> rfl

/-- two parses that end with the same `Parsed` under the same `has_tz` flag: the first is refused (by the
white-space check) or gives what the second gives -/
theorem dtParse_same (d1 p1 d2 p2 : List Char) (hasTz : Bool) (tz : Int) (P : Parsed) (dt : DT)
    (h1 : strptimeCliL p1 d1 = some P) (h2 : strptimeCliL p2 d2 = some P)
    (hr : datetimeParseFromStr d2 p2 hasTz tz = some dt) :
    datetimeParseFromStr d1 p1 hasTz tz = none ∨ datetimeParseFromStr d1 p1 hasTz tz = some dt := by
  rw [dtParse_factor] at hr ⊢
  simp only [h1, h2] at hr ⊢
  cases o1 : issue660 d1 p1 with
  | false => left; exact resolveP_false P hasTz tz
  | true =>
    cases o2 : issue660 d2 p2 with
    | false => rw [o2, resolveP_false] at hr; cases hr
    | true => right; rw [o2] at hr; exact hr

theorem strptime_none_of (pat s : List Char) (h : ∀ P, parseItems (parsePattern pat) s {} ≠ some (P, [])) :
    strptimeCliL pat s = none := by
  unfold strptimeCliL
  split
  · rename_i P hp; exact absurd hp (h P)
  · rfl

theorem strptime_some_of (pat s : List Char) (X : Parsed) (h : parseItems (parsePattern pat) s {} = some (X, [])) :
    strptimeCliL pat s = some X := by
  simp [strptimeCliL, h]

theorem dtParse_none_of (pat s : List Char) (hasTz : Bool) (tz : Int) (h : strptimeCliL pat s = none) :
    datetimeParseFromStr s pat hasTz tz = none := by
  simp [datetimeParseFromStr, h]

/-! ## rows -/

def itemsOf (r : Row) : List Item := parsePattern r.pattern.toList

def isTzNum : Item → Bool
  | .tz _ => true
  | _ => false

theorem renderItem_effT (row : Row) (f : Fields) (it : Item) (ht : row.hasTime = true)
    (hz : row.hasTzZ = false ∨ isTzNum it = false) : renderItem (effFields row f) it = renderItem f it := by
  cases it <;> first
    | rfl
    | exact renderItem_eff row f _ (by rcases hz with h | h <;> first | exact Or.inl h | exact Or.inr rfl | cases h) (Or.inl ht)

theorem renderItems_effT (row : Row) (f : Fields) (its : List Item) (ht : row.hasTime = true)
    (hz : row.hasTzZ = false ∨ its.all (fun it => !isTzNum it) = true) :
    renderItems (effFields row f) its = renderItems f its := by
  induction its with
  | nil => rfl
  | cons it r ih =>
    have hz1 : row.hasTzZ = false ∨ isTzNum it = false := by
      rcases hz with h | h
      · exact Or.inl h
      · simp only [List.all_cons, Bool.and_eq_true, Bool.not_eq_true'] at h; exact Or.inr h.1
    have hz2 : row.hasTzZ = false ∨ r.all (fun it => !isTzNum it) = true := by
      rcases hz with h | h
      · exact Or.inl h
      · simp only [List.all_cons, Bool.and_eq_true] at h; exact Or.inr h.2
    simp only [renderItems, renderItem_effT row f it ht hz1, ih hz2]

theorem zFix_id (l : List Item) (h : Item.tzName ∉ l) : zFix l = l := by
  induction l with
  | nil => rfl
  | cons a r ih =>
    simp only [List.mem_cons, not_or] at h
    have : a ≠ .tzName := fun e => h.1 e.symm
    simp only [zFix, List.map_cons, this, if_false]
    exact congrArg _ (ih h.2)

/-- table fact: the names `Z` and `z` stand for UTC -/
theorem zulu_names : nameOff ['Z'] = 0 ∧ nameOff ['z'] = 0 := by decide +kernel

/-- a row as the decision sees it: the flags and the three item lists (no strings) -/
structure RowInfo where
  hasTz : Bool
  hasTzZ : Bool
  hasTime : Bool
  /-- the items of the pattern `process_dt` hands on (`parsePattern (rowPattern row)`) -/
  J : List Item
  /-- the items of the row's own pattern -/
  I : List Item
  /-- `effItems row` -/
  E : List Item
  deriving DecidableEq, Repr

def rowInfo (r : Row) : RowInfo := ⟨r.hasTz, r.hasTzZ, r.hasTime, parsePattern (rowPattern r), itemsOf r, effItems r⟩

/-- `rj` refuses every value of `ri`, or reads it to the same `Parsed` under the same `has_tz` flag -/
def agreePairI (a b : RowInfo) : Bool :=
  a.hasTime && b.hasTime && !b.I.contains .timestamp && (a.hasTz == b.hasTz) &&
  distinctSlots a.J &&
  (!b.hasTzZ || b.I.all fun it => !isTzNum it) && !b.E.contains .tzName &&
  (if a.hasTzZ then b.hasTzZ && agreesF 64 a.J b.E
   else agreesF 64 a.J b.I && zFix b.I == b.E)

def agreePair (rj ri : Row) : Bool := agreePairI (rowInfo rj) (rowInfo ri)

theorem rowCivil_of_ok (ri : Row) (hok : RowOk ri = true) (hts : (itemsOf ri).contains .timestamp = false) :
    RowCivil ri = true := by
  simp only [RowOk, Bool.or_eq_true] at hok
  rcases hok with h | h
  · exact h
  · simp only [RowTs, Bool.and_eq_true, beq_iff_eq] at h
    have := h.1.1.1.1.1
    simp [itemsOf, this] at hts

theorem agreePair_sound (rj ri : Row) (f : Fields) (hf : f.Valid) (tz : Int) (htz : -86400 < tz ∧ tz < 86400)
    (hst : styleOk f (itemsOf ri) = true) (hok : RowOk ri = true) (h : agreePair rj ri = true) :
    attemptRow rj (render ri f) tz = none ∨ attemptRow rj (render ri f) tz = some (denote ri f tz) := by
  simp only [agreePair, agreePairI, rowInfo, Bool.and_eq_true, Bool.not_eq_true', beq_iff_eq, Bool.or_eq_true] at h
  obtain ⟨⟨⟨⟨⟨⟨⟨htj, hti⟩, hts⟩, htzeq⟩, hdJ⟩, hnum⟩, hnoname⟩, hmain⟩ := h
  have hciv := rowCivil_of_ok ri hok hts
  have hge := effFields_valid ri f hf
  have hval := rowValue_render ri f hf hciv
  have hsty := styleOk_eff ri f hf hst
  have hown := attemptRow_render ri f hf tz htz hok hst
  have hciv' := hciv
  simp only [RowCivil, Bool.and_eq_true, beq_iff_eq, Bool.not_eq_true', Bool.and_eq_false_iff] at hciv'
  obtain ⟨⟨⟨⟨⟨⟨⟨⟨⟨⟨⟨hpat, _⟩, _⟩, hcivil⟩, _⟩, _⟩, _⟩, _⟩, _⟩, _⟩, hname⟩, _⟩ := hciv'
  simp only [civilOk, Bool.and_eq_true] at hcivil
  have hsc : scannable (effItems ri) = true := hcivil.1.1.1.1.1.1.1.1.1.1
  have hdI : distinctSlots (effItems ri) = true := hcivil.1.1.1.1.1.1.1.1.1.2
  have hstr : strptimeCliL (rowPattern ri) (renderItems (effFields ri f) (effItems ri)) =
      some (applyItems (effFields ri f) (effItems ri) {}) := by
    have := strptime_render (effFields ri f) hge (rowPattern ri) (by rw [hpat]; exact hsc) (by rw [hpat]; exact hsty)
      (by rw [hpat]; exact hdI)
    rw [hpat] at this
    exact this
  have hown' : datetimeParseFromStr (renderItems (effFields ri f) (effItems ri)) (rowPattern ri) ri.hasTz tz =
      some (denote ri f tz) := by
    simpa [attemptRow, hval] using hown
  have hnotmem : Item.tzName ∉ effItems ri := by
    intro hm
    have : (effItems ri).contains .tzName = true := List.contains_iff_mem.mpr hm
    rw [hnoname] at this; cases this
  -- the text `rj` is handed, and what its items do with it
  have finish : ∀ (data : List Char) (g : Fields) (ii : List Item),
      rowValue rj (render ri f) = some data → data = renderItems g ii → g = effFields ri f →
      zFix ii = effItems ri →
      ((∀ P, parseItems (parsePattern (rowPattern rj)) (renderItems g ii) {} ≠ some (P, [])) ∨
        parseItems (parsePattern (rowPattern rj)) (renderItems g ii) {} = some (applyItemsZ g ii {}, [])) →
      attemptRow rj (render ri f) tz = none ∨ attemptRow rj (render ri f) tz = some (denote ri f tz) := by
    intro data g ii hrv hdata hg hfix hcase
    subst hg
    simp only [attemptRow, hrv]
    rcases hcase with hc | hc
    · left
      rw [hdata]
      exact dtParse_none_of _ _ _ _ (strptime_none_of _ _ hc)
    · have hs := strptime_some_of _ _ _ hc
      rw [applyItemsZ_eq, hfix] at hs
      rw [hdata, htzeq]
      exact dtParse_same _ _ _ _ ri.hasTz tz _ _ hs hstr hown'
  cases hzj : rj.hasTzZ with
  | true =>
    simp only [hzj, if_true, Bool.and_eq_true] at hmain
    obtain ⟨hzi, hag⟩ := hmain
    have hrv : rowValue rj (render ri f) = some (renderItems (effFields ri f) (effItems ri)) := by
      rw [← hval]
      simp only [rowValue, hzj, hzi, htj, hti]
    refine finish _ (effFields ri f) (effItems ri) hrv rfl rfl (zFix_id _ hnotmem) ?_
    exact agreesF_sound (effFields ri f) hge 64 _ _ {} hag hsty (fun hm => absurd hm hnotmem) hdJ
      (fun it _ => getField_empty it)
  | false =>
    simp only [hzj, Bool.false_eq_true, if_false, Bool.and_eq_true, beq_iff_eq] at hmain
    obtain ⟨hag, hfix⟩ := hmain
    have hnum' : ri.hasTzZ = false ∨ (itemsOf ri).all (fun it => !isTzNum it) = true := by
      rcases hnum with h | h
      · exact Or.inl h
      · exact Or.inr h
    have hrend : renderItems (effFields ri f) (itemsOf ri) = render ri f := renderItems_effT ri f _ hti hnum'
    have hrv : rowValue rj (render ri f) = some (render ri f) := by
      simp [rowValue, hzj, htj]
    have hstI : styleOk (effFields ri f) (itemsOf ri) = true := by
      cases hzi : ri.hasTzZ with
      | false =>
        have e : (effFields ri f).zstyle = f.zstyle := by simp [effFields, namedZone, hzi]
        simp only [styleOk, e]
        exact hst
      | true =>
        rcases hnum' with h | h
        · rw [hzi] at h; cases h
        · simp only [styleOk, List.all_eq_true] at h ⊢
          intro it hit
          have := h it hit
          cases it <;> simp_all [isTzNum]
    have hzz : Item.tzName ∈ itemsOf ri → ((effFields ri f).zname = ['Z'] ∨ (effFields ri f).zname = ['z']) →
        (effFields ri f).zoneOff = 0 := by
      intro hm hnm
      have hzi : ri.hasTzZ = true := by
        have : (parsePattern ri.pattern.toList).contains .tzName = true := List.contains_iff_mem.mpr hm
        rw [← hname]; exact this
      obtain ⟨sg, hh, mm, hnzo, hoff⟩ := namedZone_of_name ri f hf hzi
      have ezo : (effFields ri f).zoneOff = nameOff f.zname := by
        rw [hoff]
        simp only [Fields.zoneOff, effFields, hnzo]
      have hnm' : f.zname = ['Z'] ∨ f.zname = ['z'] := hnm
      rw [ezo]
      rcases hnm' with e | e <;> rw [e]
      · exact zulu_names.1
      · exact zulu_names.2
    refine finish _ (effFields ri f) (itemsOf ri) hrv hrend.symm rfl hfix ?_
    exact agreesF_sound (effFields ri f) hge 64 _ _ {} hag hstI hzz hdJ (fun it _ => getField_empty it)

/-! ### refusal -/

/-- an item whose text is non-empty and has no letter (`%s` included) -/
def nonAlpha2 (it : Item) : Bool := nonAlphaItem it || it == .timestamp

theorem renderItems_endsNonAlpha2 (f : Fields) (hf : f.Valid) (its : List Item) (h : its.getLast?.any nonAlpha2 = true) :
    ∃ A0 l, renderItems f its = A0 ++ [l] ∧ isAlpha l = false := by
  simp only [Option.any_eq_true] at h
  obtain ⟨b, hb, sb⟩ := h
  obtain ⟨pre, e1⟩ := List.getLast?_eq_some_iff.mp hb
  have hit : renderItem f b ≠ [] ∧ ∀ c ∈ renderItem f b, isAlpha c = false := by
    simp only [nonAlpha2, Bool.or_eq_true, beq_iff_eq] at sb
    rcases sb with sb | sb
    · exact renderItem_nonAlpha f b sb
    · subst sb
      exact ⟨hf.ts_ne, fun c hc => isAlpha_of_isDig (hf.ts_dig c hc)⟩
  obtain ⟨hne, hall⟩ := hit
  have e2 : (renderItem f b).dropLast ++ [(renderItem f b).getLast hne] = renderItem f b :=
    List.dropLast_concat_getLast hne
  refine ⟨renderItems f pre ++ (renderItem f b).dropLast, (renderItem f b).getLast hne, ?_,
    hall _ (List.getLast_mem hne)⟩
  rw [e1, renderItems_append, List.append_assoc, e2]
  simp [renderItems]

theorem dropWhile_keeps (q : Char → Bool) (l : Char) (hl : q l = false) (X Y : List Char) :
    ∃ T, (X ++ l :: Y).dropWhile q = T ++ l :: Y := by
  induction X with
  | nil => exact ⟨[], by simp [hl]⟩
  | cons x X ih =>
    by_cases hx : q x = true
    · obtain ⟨T, hT⟩ := ih
      exact ⟨T, by simp [hx, hT]⟩
    · exact ⟨x :: X, by simp [hx]⟩

theorem splitAlphaTail_pre (A0 : List Char) (l : Char) (B : List Char) (hl : isAlpha l = false) :
    ∃ T, (splitAlphaTail ((A0 ++ [l]) ++ B)).1 = (A0 ++ [l]) ++ T := by
  have e : ((A0 ++ [l]) ++ B).reverse = B.reverse ++ l :: A0.reverse := by simp
  obtain ⟨T, hT⟩ := dropWhile_keeps isAlpha l hl B.reverse A0.reverse
  refine ⟨T.reverse, ?_⟩
  simp only [splitAlphaTail, e, hT]
  simp

/-- the fields with the clock at midnight -/
def f0 (f : Fields) : Fields := { f with hour := 0, minute := 0, second := 0 }

theorem f0_valid (f : Fields) (hf : f.Valid) : (f0 f).Valid := by
  refine { year := hf.year, date := hf.date, hour := ?_, minute := ?_, second := ?_, milli := hf.milli,
           micro := hf.micro, zsign := hf.zsign, zh := hf.zh, zm := hf.zm, zname := hf.zname, ts_ne := hf.ts_ne,
           ts_dig := hf.ts_dig, ts_le := hf.ts_le } <;> simp [f0]

theorem renderItems_f0 (f : Fields) (its : List Item) (h : its.all (fun it => !isClockItem it) = true) :
    renderItems (f0 f) its = renderItems f its := by
  induction its with
  | nil => rfl
  | cons it r ih =>
    simp only [List.all_cons, Bool.and_eq_true, Bool.not_eq_true'] at h
    have : renderItem (f0 f) it = renderItem f it := by
      cases it <;> first | rfl | simp [isClockItem] at h
    simp only [renderItems, this, ih h.2]

theorem render_timeTail (f : Fields) : renderItems (f0 f) timeTail = [' ', 'T', '0', '0', '0', '0', '0', '0'] := by
  simp [renderItems, renderItem, timeTail, f0, pad2, digitChar, digitOf]

/-- table fact: the appended midnight -/
theorem appendTime_eq : appendTimeValue.toList = [' ', 'T', '0', '0', '0', '0', '0', '0'] := by decide +kernel

/-- `rj` refuses every value of `ri` -/
def refusePairI (a b : RowInfo) : Bool :=
  distinctSlots a.J &&
  (if a.hasTzZ then
    -- the value ends with a non-letter: no zone name to look up (`lookupTz_nil`) …
    (b.I.getLast?.any nonAlpha2) ||
    -- … or whatever the look-up gives, the text before the zone is already refused
    ((b.I.takeWhile fun it => !isZoneItem it).getLast?.any nonAlpha2 &&
      refuses none a.J (b.I.takeWhile fun it => !isZoneItem it))
  else if a.hasTime then refuses (some .empty) a.J b.I
  else
    -- a date-only `rj`: the midnight is appended to the value it is handed (`appendTime_eq`)
    b.I.all (fun it => !isClockItem it) && refuses (some .empty) a.J (b.I ++ timeTail))

def refusePair (rj ri : Row) : Bool := refusePairI (rowInfo rj) (rowInfo ri)

theorem refusePair_sound (rj ri : Row) (f : Fields) (hf : f.Valid) (tz : Int) (h : refusePair rj ri = true) :
    attemptRow rj (render ri f) tz = none := by
  simp only [refusePair, refusePairI, rowInfo, Bool.and_eq_true] at h
  obtain ⟨hdJ, h⟩ := h
  have hempty : ∀ it ∈ parsePattern (rowPattern rj), getField it ({} : Parsed) = none := fun it _ => getField_empty it
  cases hzj : rj.hasTzZ with
  | true =>
    simp only [hzj, if_true, Bool.or_eq_true, Bool.and_eq_true] at h
    rcases h with h | h
    · obtain ⟨A0, l, hA, hl⟩ := renderItems_endsNonAlpha2 f hf _ h
      have : (splitAlphaTail (render ri f)).2 = [] := by
        simp [splitAlphaTail, render, itemsOf] at hA ⊢
        simp [hA, hl]
      simp [attemptRow, rowValue, hzj, this, lookupTz_nil]
    · obtain ⟨A0, l, hA, hl⟩ := renderItems_endsNonAlpha2 f hf _ h.1
      have hsplit : render ri f = renderItems f ((itemsOf ri).takeWhile fun it => !isZoneItem it) ++
          renderItems f ((itemsOf ri).dropWhile fun it => !isZoneItem it) := by
        rw [← renderItems_append, List.takeWhile_append_dropWhile]; rfl
      obtain ⟨T, hT⟩ := splitAlphaTail_pre A0 l (renderItems f ((itemsOf ri).dropWhile fun it => !isZoneItem it)) hl
      rw [← hA, ← hsplit] at hT
      simp only [attemptRow, rowValue, hzj, if_true]
      cases hlk : lookupTz (splitAlphaTail (render ri f)).2 with
      | none => rfl
      | some z =>
        simp only [Option.map_some, hT, List.append_assoc]
        apply dtParse_none_of
        apply strptime_none_of
        exact refuses_sound f hf none _ (fun _ e => by cases e) _ _ {} h.2 hdJ hempty
  | false =>
    cases htj : rj.hasTime with
    | true =>
      simp only [hzj, htj, Bool.false_eq_true, if_false, if_true] at h
      have := refuses_sound f hf (some .empty) [] (fun h e => by injection e with e; subst e; rfl) _ _ {} h hdJ hempty
      simp only [attemptRow, rowValue, hzj, htj, Bool.false_eq_true, if_false, if_true, Option.map_some]
      apply dtParse_none_of
      apply strptime_none_of
      exact this
    | false =>
      simp only [hzj, htj, Bool.false_eq_true, if_false, Bool.and_eq_true] at h
      obtain ⟨hclock, href⟩ := h
      have happ := appendTime_eq
      have := refuses_sound (f0 f) (f0_valid f hf) (some .empty) [] (fun h e => by injection e with e; subst e; rfl)
        _ _ {} href hdJ hempty
      rw [renderItems_append, renderItems_f0 f _ hclock, render_timeTail, List.append_nil] at this
      simp only [attemptRow, rowValue, hzj, htj, Bool.false_eq_true, if_false, Option.map_some, happ]
      apply dtParse_none_of
      apply strptime_none_of
      exact this

/-! ### the per-row decision -/

/-- the earlier row `rj` refuses every value of `ri` or reads it to the same instant -/
def pairOkI (a b : RowInfo) : Bool := refusePairI a b || agreePairI a b

def pairOk (rj ri : Row) : Bool := pairOkI (rowInfo rj) (rowInfo ri)

theorem pairOk_sound (rj ri : Row) (f : Fields) (hf : f.Valid) (tz : Int) (htz : -86400 < tz ∧ tz < 86400)
    (hst : styleOk f (itemsOf ri) = true) (hok : RowOk ri = true) (h : pairOk rj ri = true) :
    attemptRow rj (render ri f) tz = none ∨ attemptRow rj (render ri f) tz = some (denote ri f tz) := by
  simp only [pairOk, pairOkI, Bool.or_eq_true] at h
  rcases h with h | h
  · exact Or.inl (refusePair_sound rj ri f hf tz h)
  · exact agreePair_sound rj ri f hf tz htz hst hok h

/-- how a pair is settled: 0 = refused, 1 = refuses or same `Parsed`, 2 = open -/
def pairKindI (a b : RowInfo) : Nat := if refusePairI a b then 0 else if agreePairI a b then 1 else 2

/-! ### the decision over a list of `RowInfo` (item lists computed once) -/

/-- `p` holds for every (earlier, later) pair of the list -/
def allPairs (p : RowInfo → RowInfo → Bool) : List RowInfo → Bool
  | [] => true
  | a :: r => r.all (p a) && allPairs p r

theorem allPairs_sound (p : RowInfo → RowInfo → Bool) (l : List RowInfo) (h : allPairs p l = true)
    (i : Nat) (b : RowInfo) (hb : l[i]? = some b) : ∀ a ∈ l.take i, p a b = true := by
  induction l generalizing i with
  | nil => simp at hb
  | cons x r ih =>
    simp only [allPairs, Bool.and_eq_true, List.all_eq_true] at h
    cases i with
    | zero => simp
    | succ n =>
      simp only [List.getElem?_cons_succ] at hb
      intro a ha
      simp only [List.take_succ_cons, List.mem_cons] at ha
      rcases ha with e | ha
      · subst e; exact h.1 b (List.mem_of_getElem? hb)
      · exact ih h.2 n hb a ha

/-- from the decision on the `RowInfo`s of the table to the rows of the table -/
theorem pairs_of_infos (p : RowInfo → RowInfo → Bool) (h : allPairs p (cliFilterPatterns.map rowInfo) = true)
    (i : Nat) (ri : Row) (hrow : cliFilterPatterns[i]? = some ri) :
    ∀ rj ∈ cliFilterPatterns.take i, p (rowInfo rj) (rowInfo ri) = true := by
  intro rj hrj
  apply allPairs_sound p _ h i (rowInfo ri) (by simp [List.getElem?_map, hrow])
  rw [← List.map_take]
  exact List.mem_map_of_mem hrj

/-- the positions whose every earlier entry satisfies `p` against them -/
def rowsWhere (p : RowInfo → RowInfo → Bool) (l : List RowInfo) : List Nat :=
  (List.range l.length).filter fun i =>
    match l[i]? with
    | some b => (l.take i).all fun a => p a b
    | none => false

theorem rowsWhere_sound (p : RowInfo → RowInfo → Bool) (i : Nat)
    (h : i ∈ rowsWhere p (cliFilterPatterns.map rowInfo)) (ri : Row) (hrow : cliFilterPatterns[i]? = some ri) :
    ∀ rj ∈ cliFilterPatterns.take i, p (rowInfo rj) (rowInfo ri) = true := by
  simp only [rowsWhere, List.mem_filter, List.getElem?_map, hrow, Option.map_some, List.all_eq_true] at h
  intro rj hrj
  apply h.2
  rw [← List.map_take]
  exact List.mem_map_of_mem hrj

end S4V.Lemmas.CliNoSteal
