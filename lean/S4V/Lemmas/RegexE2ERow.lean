/-
C04, regex slice, stage 6 — the row-level join: `RowResult` (what a capture theorem `C04_rowN_search` gives) +
`C04_words_denote` ⇒ the pipeline of ONE row of `DATETIME_PARSE_DATAS` on a rendered line yields the instant the
captured words spell.

* `rowInstant row slice`    `bytes_to_regex_to_datetime(slice, row, year_opt, tz_offset)`: the row's regex on the slice,
                            the named groups into the buffer, the buffer through chrono
* `rowPipeline row line`    the iteration of `find_datetime_in_line` for this row: the regex only sees
                            `line[range_regex.start .. min(len, range_regex.end))` (`S4V.Model.Ezcheck.lineSlice`)
* `selFields row sel`       the `Captures` whose named fields are the words of a selection
* `capturesOf_rowResult`    after a row theorem the `Captures` the code reads ARE `selFields`
* `e2e_plain` / `e2e_end`   generic end-to-end statements for rows without / with a final `(?P<g>[class]|$)` group
* `pipeline_plain` / `pipeline_end`  the same through the slicing, when the stamp ends before `range_regex.end`
* `flat_le_maxLen`          a selection of a catalogue is at most `maxLen` bytes long (so `maxLen ≤ range_regex.end`, one
                            kernel computation per row, discharges the slicing hypothesis for every selection)
-/
import S4V.Lemmas.RegexE2EWords
import S4V.Lemmas.RegexAuto
import S4V.Props.RegexCapture2
import S4V.Model.Ezcheck

namespace S4V.Lemmas.RegexE2E
open S4V.Model.Regex S4V.Lemmas.RegexStep S4V.Lemmas.RegexSym S4V.Lemmas.RegexRows S4V.Lemmas.RegexAuto
open S4V.Gen.TimeTables S4V.Model.Time S4V.Model.DtParse S4V.Lemmas.DtParse S4V.Props.TimeSpec S4V.Lemmas.RegexZones
open S4V.Props.RegexCapture (capturesOf capField)
open S4V.Props.RegexCapture2 (capField_eq)
open S4V.Model.Ezcheck (lineSlice)

abbrev RRow := S4V.Gen.Regex.Row

/-- `bytes_to_regex_to_datetime(slice, row, year_opt, tz_offset, …)`: instant in ns, `none` = no match or no date -/
def rowInstant (row : RRow) (slice : Bytes) (fbOff : Int) (fill : Option Int) : Option Int :=
  (search row.re slice).bind fun res => capturesToInstant row.dtfs (capturesOf row slice res.caps) fbOff fill

/-- one iteration of the loop of `find_datetime_in_line`: the row only sees its `range_regex` slice of the line -/
def rowPipeline (row : RRow) (line : Bytes) (fbOff : Int) (fill : Option Int) : Option Int :=
  rowInstant row (lineSlice line row.rangeStart (min line.length row.rangeEnd)) fbOff fill

/-- the text of the named group `name` according to a selection -/
def selField (row : RRow) (sel : Sel) (name : String) : Option Bytes :=
  (row.names.lookup name).bind (fun g => selText g sel)

/-- the `Captures` whose named fields are the words of the selection -/
def selFields (row : RRow) (sel : Sel) : Captures :=
  { year := selField row sel "year", month := selField row sel "month", day := selField row sel "day",
    hour := selField row sel "hour", minute := selField row sel "minute", second := selField row sel "second",
    fractional := selField row sel "fractional", tz := selField row sel "tz", epoch := selField row sel "epoch" }

/-- no named group is one the head `(^|x)` / `([c]|^)` recorded -/
def headFree (row : RRow) (c0 : Caps) : Bool := row.names.all (fun p => (capGet c0 p.2).isNone)

theorem lookup_snd_mem {names : List (String × Nat)} {name : String} {g : Nat} (h : names.lookup name = some g) :
    (name, g) ∈ names := by
  induction names with
  | nil => simp [List.lookup] at h
  | cons p r ih =>
    obtain ⟨a, b⟩ := p
    simp only [List.lookup] at h
    split at h
    · next heq => cases h; have : name = a := by simpa using heq
                  subst this; simp
    · exact List.mem_cons_of_mem _ (ih h)

theorem capField_rowResult (row : RRow) {line : Bytes} {stop : Nat} {c0 : Caps} {sel : Sel}
    (h : RowResult row.re line stop c0 sel) (hf : headFree row c0 = true) (name : String) :
    capField row line (capsAt 0 c0 sel) name = selField row sel name := by
  rw [capField_eq]
  unfold selField
  cases hl : row.names.lookup name with
  | none => rfl
  | some g =>
    simp only [Option.bind_some]
    rw [h.2 g]
    have hm := lookup_snd_mem hl
    have := List.all_eq_true.mp hf (name, g) hm
    have hn : capGet c0 g = none := by simpa using this
    cases selText g sel with
    | some t => rfl
    | none => simp [groupText, hn]

/-- after a row theorem, the `Captures` the code reads are the words of the selection -/
theorem capturesOf_rowResult (row : RRow) {line : Bytes} {stop : Nat} {c0 : Caps} {sel : Sel}
    (h : RowResult row.re line stop c0 sel) (hf : headFree row c0 = true) :
    capturesOf row line (capsAt 0 c0 sel) = selFields row sel := by
  simp only [capturesOf, selFields, capField_rowResult row h hf]

/-- the final group is not a named field: its byte does not change the fields -/
theorem selFields_end (row : RRow) (sel : Sel) (g : Nat) (s : Sym) (tail : Bytes)
    (hg : row.names.all (fun p => p.2 != g) = true) : selFields row (sel ++ [endEw g s tail]) = selFields row sel := by
  have key : ∀ name, selField row (sel ++ [endEw g s tail]) name = selField row sel name := by
    intro name
    unfold selField
    cases hl : row.names.lookup name with
    | none => rfl
    | some g' =>
      simp only [Option.bind_some]
      have hm := lookup_snd_mem hl
      have := List.all_eq_true.mp hg (name, g') hm
      have hne : g' ≠ g := by simpa using this
      rw [selText_append, selText_endEw g g' s tail hne]
  simp only [selFields, key]

/-! ### generic end-to-end statements -/

/-- **end to end, generic**: whatever selection a row theorem is about, well-shaped words with calendar values
are attributed the instant they spell -/
theorem e2e_of_result (row : RRow) (name : String) (hmem : (name, row.dtfs) ∈ allDTFSS) (hdt : row.dtfs.epoch = .none_)
    {line : Bytes} {stop : Nat} {c0 : Caps} {sel : Sel} (h : RowResult row.re line stop c0 sel)
    (hf : headFree row c0 = true) (fbOff : Int) (hfb : FbOK' fbOff) (fill : Option Int)
    (hs : shapeOK row.dtfs (selFields row sel) fill = true) (hr : rangeOK row.dtfs (selFields row sel) fill = true) :
    rowInstant row line fbOff fill = some (fieldsOf row.dtfs (selFields row sel) fbOff fill).instant := by
  unfold rowInstant
  rw [h.1]
  simp only [Option.bind_some]
  rw [capturesOf_rowResult row h hf]
  exact C04_words_denote name row.dtfs hmem hdt _ fbOff hfb fill hs hr

/-- rows with a final `(?P<g>[class]|$)`: the fields are those of the body selection -/
theorem e2e_end (row : RRow) (name : String) (hmem : (name, row.dtfs) ∈ allDTFSS) (hdt : row.dtfs.epoch = .none_)
    {line : Bytes} {stop : Nat} {c0 : Caps} {sel : Sel} {g : Nat} {s : Sym} {tail : Bytes}
    (h : RowResult row.re line stop c0 (sel ++ [endEw g s tail]))
    (hf : headFree row c0 = true) (hg : row.names.all (fun p => p.2 != g) = true)
    (fbOff : Int) (hfb : FbOK' fbOff) (fill : Option Int)
    (hs : shapeOK row.dtfs (selFields row sel) fill = true) (hr : rangeOK row.dtfs (selFields row sel) fill = true) :
    rowInstant row line fbOff fill = some (fieldsOf row.dtfs (selFields row sel) fbOff fill).instant := by
  have e := selFields_end row sel g s tail hg
  have := e2e_of_result row name hmem hdt h hf fbOff hfb fill (by rw [e]; exact hs) (by rw [e]; exact hr)
  rwa [e] at this

/-! ### through the `range_regex` slice -/

theorem slice_stamp (row : RRow) (hrs : row.rangeStart = 0) (stamp tail : Bytes) (hlen : stamp.length ≤ row.rangeEnd) :
    lineSlice (stamp ++ tail) row.rangeStart (min (stamp ++ tail).length row.rangeEnd) =
      stamp ++ tail.take (row.rangeEnd - stamp.length) := by
  rw [hrs]
  simp only [lineSlice, List.drop_zero, Nat.sub_zero, List.length_append]
  rw [List.take_append]
  have h1 : stamp.take (min (stamp.length + tail.length) row.rangeEnd) = stamp := by
    apply List.take_of_length_le; omega
  rw [h1]
  congr 1
  by_cases h : stamp.length + tail.length ≤ row.rangeEnd
  · rw [Nat.min_eq_left h]
    rw [List.take_of_length_le (by omega), List.take_of_length_le (by omega)]
  · rw [Nat.min_eq_right (by omega)]

theorem tailIn_take {s : Sym} {tail : Bytes} (h : TailIn s tail) (k : Nat) : TailIn s (tail.take k) := by
  intro x t e
  cases tail with
  | nil => simp at e
  | cons y r =>
    cases k with
    | zero => simp at e
    | succ k =>
      simp only [List.take_succ_cons, List.cons.injEq] at e
      rw [← e.1]; exact h y r rfl

theorem tailF_take {s : Sym} {tail : Bytes} (h : TailF s tail) (k : Nat) : TailF s (tail.take k) := tailIn_take h k

/-- the pipeline of a row on `stamp ++ tail` is `bytes_to_regex_to_datetime` on the stamp and the part of the tail
before `range_regex.end` -/
theorem pipeline_eq (row : RRow) (hrs : row.rangeStart = 0) (stamp tail : Bytes) (hlen : stamp.length ≤ row.rangeEnd)
    (fbOff : Int) (fill : Option Int) :
    rowPipeline row (stamp ++ tail) fbOff fill =
      rowInstant row (stamp ++ tail.take (row.rangeEnd - stamp.length)) fbOff fill := by
  unfold rowPipeline
  rw [slice_stamp row hrs stamp tail hlen]

/-! ### the longest rendering of a catalogue -/

def maxLen (qs : List Piece) : Nat := (qs.map (fun q => (q.dom.map (fun e => e.1.length)).foldl max 0)).foldl (· + ·) 0

theorem foldl_max_ge (l : List Nat) : ∀ (a : Nat), a ≤ l.foldl max a ∧ ∀ x ∈ l, x ≤ l.foldl max a := by
  induction l with
  | nil => intro a; simp
  | cons y r ih =>
    intro a
    simp only [List.foldl_cons]
    obtain ⟨h1, h2⟩ := ih (max a y)
    refine ⟨by omega, fun x hx => ?_⟩
    rcases List.mem_cons.mp hx with rfl | hx
    · omega
    · exact h2 x hx

theorem foldl_add (l : List Nat) : ∀ a : Nat, l.foldl (· + ·) a = a + l.foldl (· + ·) 0 := by
  induction l with
  | nil => intro a; simp
  | cons y r ih => intro a; simp only [List.foldl_cons]; rw [ih (a + y), ih (0 + y)]; omega

/-- every selection of a catalogue is at most `maxLen` bytes long -/
theorem flat_le_maxLen : ∀ {qs : List Piece} {sel : Sel}, Valid qs sel → (flat sel).length ≤ maxLen qs := by
  intro qs
  induction qs with
  | nil => intro sel h; cases sel with
    | nil => simp [flat, maxLen]
    | cons _ _ => exact absurd h (by simp [Valid])
  | cons q qs ih =>
    intro sel h
    cases sel with
    | nil => exact absurd h (by simp [Valid])
    | cons ew sel =>
      obtain ⟨hm, hc, hv⟩ := h
      have h1 := ih hv
      have h2 : ew.2.length ≤ (q.dom.map (fun e => e.1.length)).foldl max 0 := by
        rw [← conc_length hc]
        exact (foldl_max_ge _ 0).2 _ (List.mem_map.mpr ⟨ew.1, hm, rfl⟩)
      simp only [flat, List.length_append, maxLen, List.map_cons, List.foldl_cons] at h1 ⊢
      rw [foldl_add]
      omega

end S4V.Lemmas.RegexE2E
