/-
C04 — the regenerated `captures_to_buffer_bytes` (`S4V.Gen.Captures.body`, interpreted by
`S4V.Model.Captures`) writes, statement by statement, the pieces of the hand model
`S4V.Model.DtParse.capturesToBuffer`. Every lemma unfolds the generated statement it is about, so
a source edit that regenerates different data breaks the proof of that field.
-/
import S4V.Model.Captures
set_option linter.constructorNameAsVariable false

namespace S4V.Lemmas.Captures
open S4V.Gen.TimeTables S4V.Gen.Captures S4V.Model.DtParse S4V.Model.Captures

attribute [local simp] emit emits emitFieldArms emitLenArms emitByteArms fieldVal getGrp Slice.eval Byte.eval Konst.val

/-! ### tables -/

theorem lookup_mem {t : List (Bytes × Bytes)} {k v : Bytes} (h : lookup t k = some v) : (k, v) ∈ t := by
  induction t with
  | nil => simp [lookup] at h
  | cons a r ih =>
    rcases a with ⟨a, w⟩
    unfold lookup at h
    by_cases e : a = k
    · simp [e] at h; simp [e, h]
    · simp [e] at h; exact List.mem_cons_of_mem _ (ih h)

theorem month_values_two : monthNamesB.all (fun kv => kv.2.length == 2) = true := by decide +kernel

theorem month_value_len {k v : Bytes} (h : lookup monthNamesB k = some v) : v.length = 2 := by
  have := List.all_eq_true.mp month_values_two _ (lookup_mem h)
  simpa using this

theorem tz_keys_ascii : tzTableB.all (fun kv => kv.1.all (fun x => x < 128)) = true := by decide +kernel

theorem tz_key_ascii {k v : Bytes} (h : lookup tzTableB k = some v) : k.all (fun x => x < 128) = true :=
  List.all_eq_true.mp tz_keys_ascii _ (lookup_mem h)

theorem tz_no_empty_key : lookup tzTableB [] = none := by decide +kernel

/-! ### one lemma per top-level statement -/

theorem emit_epoch (x : Ctx) : emit x s_epoch = epochPiece x.set.epoch x.caps := by
  rcases x with ⟨⟨y, mo, d, h, mi, s, f, z, e, pat⟩, c, tzs, fy⟩
  cases e <;> simp [s_epoch, epochPiece]

theorem emit_year (x : Ctx) : emit x s_year = yearPiece x.set.year x.caps x.fillYear := by
  rcases x with ⟨⟨y, mo, d, h, mi, s, f, z, e, pat⟩, c, tzs, fy⟩
  cases y <;> cases hc : c.year <;> cases fy <;> simp [s_year, yearPiece, hc]

theorem emit_month (x : Ctx) : emit x s_month = monthPiece x.set.month x.caps := by
  rcases x with ⟨⟨y, mo, d, h, mi, s, f, z, e, pat⟩, c, tzs, fy⟩
  cases mo <;> cases hc : c.month <;> simp [s_month, monthPiece, hc]
  · split <;> rfl
  all_goals
    rename_i v
    cases hl : lookup monthNamesB v with
    | none => rfl
    | some w => simp [month_value_len hl]

theorem emit_day (x : Ctx) : emit x s_day = dayPiece x.set.day x.caps := by
  rcases x with ⟨⟨y, mo, d, h, mi, s, f, z, e, pat⟩, c, tzs, fy⟩
  cases d <;> simp [s_day, dayPiece]
  rcases hc : c.day with _ | (_ | ⟨a, _ | ⟨b, _ | ⟨b', r⟩⟩⟩) <;> simp

theorem emit_sep (x : Ctx) : emit x s_sep = some [84] := by simp [s_sep]

theorem emit_hour (x : Ctx) : emit x s_hour = hourPiece x.set.hour x.caps := by
  rcases x with ⟨⟨y, mo, d, h, mi, s, f, z, e, pat⟩, c, tzs, fy⟩
  cases h <;> cases hc : c.hour <;> simp [s_hour, hourPiece, hc]
  split <;> rfl

theorem emit_minute (x : Ctx) : emit x s_minute = minutePiece x.set.minute x.caps := by
  rcases x with ⟨⟨y, mo, d, h, mi, s, f, z, e, pat⟩, c, tzs, fy⟩
  cases mi <;> simp [s_minute, minutePiece]

theorem emit_second (x : Ctx) : emit x s_second = secondPiece x.set.second x.caps := by
  rcases x with ⟨⟨y, mo, d, h, mi, s, f, z, e, pat⟩, c, tzs, fy⟩
  cases s <;> simp [s_second, secondPiece]

/-- the 13-arm padding table: the arm of each length appends exactly the zeros that fill nine digits,
lengths 10–12 copy the first nine, longer ones nothing -/
theorem emit_fractional (x : Ctx) : emit x s_fractional = fracPiece x.set.fractional x.caps := by
  rcases x with ⟨⟨y, mo, d, h, mi, s, f, z, e, pat⟩, c, tzs, fy⟩
  cases f <;> cases hc : c.fractional <;> simp [s_fractional, fracPiece, hc]
  rename_i v
  rcases Nat.lt_or_ge v.length 13 with hlt | hge
  · have : v.length = 0 ∨ v.length = 1 ∨ v.length = 2 ∨ v.length = 3 ∨ v.length = 4 ∨ v.length = 5 ∨ v.length = 6 ∨
        v.length = 7 ∨ v.length = 8 ∨ v.length = 9 ∨ v.length = 10 ∨ v.length = 11 ∨ v.length = 12 := by omega
    rcases this with h | h | h | h | h | h | h | h | h | h | h | h | h
    · have := List.eq_nil_of_length_eq_zero h; subst this; simp [fracNorm, List.replicate]
    all_goals
      have hne : v ≠ [] := by intro e; simp [e] at h
      simp [h, hne, fracNorm, List.replicate]
  · have h0 : ¬ v.length ≤ 9 := by omega
    have h1 : ¬ v.length ≤ 12 := by omega
    have : v.length ≠ 0 ∧ v.length ≠ 1 ∧ v.length ≠ 2 ∧ v.length ≠ 3 ∧ v.length ≠ 4 ∧ v.length ≠ 5 ∧ v.length ≠ 6 ∧
        v.length ≠ 7 ∧ v.length ≠ 8 ∧ v.length ≠ 9 ∧ v.length ≠ 10 ∧ v.length ≠ 11 ∧ v.length ≠ 12 := by omega
    obtain ⟨a0, a1, a2, a3, a4, a5, a6, a7, a8, a9, a10, a11, a12⟩ := this
    have hne : v ≠ [] := by intro e; simp [e] at hge
    simp [fracNorm, h0, h1, hne, a1, a2, a3, a4, a5, a6, a7, a8, a9, a10, a11, a12]

/-! ### zone -/

theorem stripMinus_eq (b : Bytes) : stripMinus b = if startsWith b MINUS_SIGN then 45 :: b.drop 3 else b := by
  rcases b with _ | ⟨a, _ | ⟨b, _ | ⟨c, r⟩⟩⟩ <;> try (simp [stripMinus, startsWith, MINUS_SIGN]; done)
  by_cases h : a = 0xE2 ∧ b = 0x88 ∧ c = 0x92
  · obtain ⟨rfl, rfl, rfl⟩ := h
    simp [stripMinus, startsWith, MINUS_SIGN]
  · have : startsWith (a :: b :: c :: r) MINUS_SIGN = false := by
      simp [startsWith, MINUS_SIGN]
      intro h1 h2 h3; exact h ⟨h1, h2, h3⟩
    rw [this]
    unfold stripMinus
    split
    · rename_i heq
      simp at heq
      exact absurd ⟨heq.1, heq.2.1, heq.2.2.1⟩ h
    · rfl

/-- the capture of a numeric zone is text: whatever follows a U+2212 sign is valid UTF-8 (the zone
regexes capture ASCII digits and `:` there). Without it the code drops the rest of the capture
(`Err(_) => {}`) while the hand model keeps it; both then fail to parse. -/
def TzSignOK (c : S4V.Model.DtParse.Captures) : Prop :=
  ∀ b, c.tz = some b → startsWith b MINUS_SIGN = true → utf8Valid b = true

theorem decode_minus (r : Bytes) : S4V.Model.Regex.decode (0xE2 :: 0x88 :: 0x92 :: r) = some (8722, 3) := by
  simp [S4V.Model.Regex.decode, S4V.Model.Regex.isCont]

theorem startsWith_minus {b : Bytes} (h : startsWith b MINUS_SIGN = true) : ∃ r, b = 0xE2 :: 0x88 :: 0x92 :: r := by
  rcases b with _ | ⟨a, _ | ⟨b, _ | ⟨c, r⟩⟩⟩ <;> simp [startsWith, MINUS_SIGN] at h
  obtain ⟨rfl, rfl, rfl⟩ := h
  exact ⟨r, rfl⟩

theorem tz_numeric (v : Bytes) (hv : startsWith v MINUS_SIGN = true → utf8Valid v = true) :
    (if startsWith v MINUS_SIGN = true then
      Option.map (fun b => HYPHEN_MINUS ++ b)
        (if utf8Valid v = true then
          if (secondCharOffset v).isSome = true then Option.map (fun n => List.drop n v) (secondCharOffset v)
          else some []
        else some [])
    else some v) = some (stripMinus v) := by
  rw [stripMinus_eq]
  by_cases hsw : startsWith v MINUS_SIGN = true
  · have hv' := hv hsw
    obtain ⟨r, rfl⟩ := startsWith_minus hsw
    cases r <;> simp [hsw, hv', secondCharOffset, decode_minus, HYPHEN_MINUS]
  · simp [hsw]

theorem tz_named (v tzs : Bytes) :
    (if u8ToStrOk v = true → v = [] then some tzs
    else
      if (lookup tzTableB (if u8ToStrOk v = true then v else [])).isSome = true then
        match lookup tzTableB (if u8ToStrOk v = true then v else []) with
        | some b => if b = [] then some tzs else lookup tzTableB (if u8ToStrOk v = true then v else [])
        | none => none
      else some tzs) =
    some
      (match lookup tzTableB v with
      | some w => if w = [] then tzs else w
      | none => tzs) := by
  by_cases hu : u8ToStrOk v = true
  · by_cases hv : v = []
    · subst hv; simp [tz_no_empty_key]
    · cases hl : lookup tzTableB v with
      | none => simp [hu, hv, hl]
      | some w => by_cases hw : w = [] <;> simp [hu, hv, hl, hw]
  · have : lookup tzTableB v = none := by
      cases hl : lookup tzTableB v with
      | none => rfl
      | some w =>
        have := tz_key_ascii hl
        exact absurd (by simp [u8ToStrOk, this]) hu
    simp [hu, this]

theorem emit_tz (x : Ctx) (hs : TzSignOK x.caps) : emit x s_tz = tzPiece x.set.tz x.caps x.tzs := by
  rcases x with ⟨⟨y, mo, d, h, mi, s, f, z, e, pat⟩, c, tzs, fy⟩
  cases z <;> cases hc : c.tz <;> simp [s_tz, tzPiece, hc]
  · exact tz_numeric _ (hs _ hc)
  · exact tz_numeric _ (hs _ hc)
  · exact tz_numeric _ (hs _ hc)
  · exact tz_named _ _

/-- without the hypothesis: every set whose zone field is not one of the numeric forms -/
theorem emit_tz_other (x : Ctx) (hz : x.set.tz ≠ .z ∧ x.set.tz ≠ .zc ∧ x.set.tz ≠ .zp) :
    emit x s_tz = tzPiece x.set.tz x.caps x.tzs := by
  rcases x with ⟨⟨y, mo, d, h, mi, s, f, z, e, pat⟩, c, tzs, fy⟩
  cases z <;> cases hc : c.tz <;> simp [s_tz, tzPiece, hc] <;> first | exact tz_named _ _ | simp_all

/-! ### the whole body -/

/-- the hand model as a chain of binds in buffer order -/
theorem capturesToBuffer_bind (set : DTFSSet) (c : S4V.Model.DtParse.Captures) (tzs : Bytes) (fy : Option Int) :
    capturesToBuffer set c tzs fy =
      (epochPiece set.epoch c).bind fun e => (yearPiece set.year c fy).bind fun y => (monthPiece set.month c).bind fun mo =>
      (dayPiece set.day c).bind fun d => (hourPiece set.hour c).bind fun h => (minutePiece set.minute c).bind fun mi =>
      (secondPiece set.second c).bind fun s => (fracPiece set.fractional c).bind fun f => (tzPiece set.tz c tzs).bind fun z =>
        let buf := e ++ (y ++ (mo ++ (d ++ (84 :: (h ++ (mi ++ (s ++ (f ++ z))))))))
        if buf.length ≤ BUFLEN then some buf else none := by
  unfold capturesToBuffer
  cases epochPiece set.epoch c <;> cases yearPiece set.year c fy <;> cases monthPiece set.month c <;>
    cases dayPiece set.day c <;> cases hourPiece set.hour c <;> cases minutePiece set.minute c <;>
    cases secondPiece set.second c <;> cases fracPiece set.fractional c <;> cases tzPiece set.tz c tzs <;> rfl

/-- the statements of the regenerated body write the hand model's pieces, in the hand model's order -/
theorem body_is_model (set : DTFSSet) (c : S4V.Model.DtParse.Captures) (tzs : Bytes) (fy : Option Int)
    (htz : emit ⟨set, c, tzs, fy⟩ s_tz = tzPiece set.tz c tzs) :
    capturesToBufferG body set c tzs fy = capturesToBuffer set c tzs fy := by
  rw [capturesToBuffer_bind]
  unfold capturesToBufferG body
  simp only [emits, emit_epoch, emit_year, emit_month, emit_day, emit_sep, emit_hour, emit_minute, emit_second,
    emit_fractional, htz]
  cases epochPiece set.epoch c <;> simp
  cases yearPiece set.year c fy <;> simp
  cases monthPiece set.month c <;> simp
  cases dayPiece set.day c <;> simp
  cases hourPiece set.hour c <;> simp
  cases minutePiece set.minute c <;> simp
  cases secondPiece set.second c <;> simp
  cases fracPiece set.fractional c <;> simp
  cases tzPiece set.tz c tzs <;> simp

end S4V.Lemmas.Captures
