/-
Lemmas about the stage-3 counting model `S4V.Model.Mem`: frame / preservation facts for
`readUpTo`, `addLine`, `findMsg`, `dropTryG`, and the loop invariant behind
`C17_bound_partial_general` (Props/MemSpec.lean).
-/
import S4V.Model.Mem

namespace S4V.Lemmas.Mem
open S4V.Model.Mem S4V.Gen.Consts S4V.Gen.Stream S4V.Gen.Blocks

/-! ### counting -/

/-- a strictly descending list of naturals inside `[lo, hi)` has at most `hi - lo` elements -/
theorem desc_length_le : ∀ (l : List Nat) (lo hi : Nat), l.Pairwise (· > ·) →
    (∀ c ∈ l, lo ≤ c ∧ c < hi) → l.length ≤ hi - lo
  | [], _, _, _, _ => by simp
  | a :: l, lo, hi, hp, hm => by
    have ha := hm a (by simp)
    rw [List.pairwise_cons] at hp
    have := desc_length_le l lo a hp.2 (fun c hc => ⟨(hm c (by simp [hc])).1, hp.1 c hc⟩)
    simp only [List.length_cons]
    omega

theorem foldl_inv {α β : Type} (P : β → Prop) (f : β → α → β) :
    ∀ (xs : List α) (s : β), (∀ s x, x ∈ xs → P s → P (f s x)) → P s → P (xs.foldl f s)
  | [], _, _, h => h
  | x :: xs, s, hf, h => by
    simp only [List.foldl_cons]
    exact foldl_inv P f xs (f s x) (fun s y hy => hf s y (by simp [hy])) (hf s x (by simp) h)

/-- pairs `(j, i)` with `j` in the window `k-4 ..= k`, `i < M`, or the one pair `(k+1, 0)` -/
theorem lines_count (M k : Nat) (l : List (Nat × Nat)) (hn : l.Nodup)
    (h : ∀ p ∈ l, (p.2 < M ∧ k ≤ p.1 + 4 ∧ p.1 ≤ k) ∨ p = (k + 1, 0)) : l.length ≤ 5 * M + 1 := by
  let W : List (Nat × Nat) :=
    (k + 1, 0) :: ((List.range 5).flatMap fun d => (List.range M).map fun i => (k - d, i))
  have hsub : l ⊆ W := by
    intro p hp
    rcases h p hp with ⟨h1, h2, h3⟩ | h1
    · refine List.mem_cons_of_mem _ (List.mem_flatMap.2 ⟨k - p.1, List.mem_range.2 (by omega), ?_⟩)
      refine List.mem_map.2 ⟨p.2, List.mem_range.2 h1, ?_⟩
      have : k - (k - p.1) = p.1 := by omega
      rw [this]
    · rw [h1]; exact List.mem_cons_self
  have hlen : W.length = 5 * M + 1 := by
    simp only [W, List.length_cons, List.length_flatMap, List.length_map, List.length_range, List.map_const',
      List.replicate, List.sum_cons, List.sum_nil]
    omega
  have := List.Nodup.length_le_of_subset hn hsub
  omega

/-! ### `readUpTo` -/

/-- what `readUpTo` leaves alone, and `nread` only grows -/
theorem readUpTo_frame (streamed : Bool) (b : Nat) : ∀ (fuel : Nat) (st : St),
    (readUpTo streamed fuel st b).lines = st.lines ∧ (readUpTo streamed fuel st b).lHigh = st.lHigh
    ∧ (readUpTo streamed fuel st b).syslines = st.syslines ∧ (readUpTo streamed fuel st b).sHigh = st.sHigh
    ∧ st.nread ≤ (readUpTo streamed fuel st b).nread
  | 0, st => by simp [readUpTo]
  | fuel + 1, st => by
    unfold readUpTo
    split
    · have := readUpTo_frame streamed b fuel
        { st with blocks := (if streamed && READ_BLOCK_LOOKBACK_DROP && decide (0 < st.nread) then
                    (st.nread :: st.blocks).filter (· != st.nread - 1) else st.nread :: st.blocks),
                  nread := st.nread + 1, bHigh := max st.bHigh (st.nread :: st.blocks).length }
      simp only at this ⊢
      refine ⟨this.1, this.2.1, this.2.2.1, this.2.2.2.1, ?_⟩
      have := this.2.2.2.2
      omega
    · simp

/-- with enough fuel block `b` has been read afterwards -/
theorem readUpTo_nread_ge (streamed : Bool) (b : Nat) : ∀ (fuel : Nat) (st : St),
    b + 1 ≤ st.nread + fuel → b + 1 ≤ (readUpTo streamed fuel st b).nread
  | 0, st, h => by simpa [readUpTo] using h
  | fuel + 1, st, h => by
    unfold readUpTo
    split
    · apply readUpTo_nread_ge streamed b fuel
      simp only
      omega
    · omega

/-- the `blocks` map of a plain file: strictly descending keys inside `[lo, nread)`, `nread ≤ hi` -/
structure BOk (lo hi B : Nat) (st : St) : Prop where
  desc : st.blocks.Pairwise (· > ·)
  mem : ∀ c ∈ st.blocks, lo ≤ c ∧ c < st.nread
  lo_le : lo ≤ st.nread
  le_hi : st.nread ≤ hi
  high : st.bHigh ≤ B

theorem BOk.length_le {lo hi B : Nat} {st : St} (h : BOk lo hi B st) : st.blocks.length ≤ hi - lo := by
  have := desc_length_le st.blocks lo st.nread h.desc h.mem
  have := h.le_hi
  omega

theorem readUpTo_plain_BOk {lo hi B b : Nat} (hB : hi - lo ≤ B) (hb : b + 1 ≤ hi) : ∀ (fuel : Nat) (st : St),
    BOk lo hi B st → BOk lo hi B (readUpTo false fuel st b)
  | 0, st, h => by simpa [readUpTo] using h
  | fuel + 1, st, h => by
    unfold readUpTo
    split
    · rename_i hle
      apply readUpTo_plain_BOk hB hb fuel
      have hnew : BOk lo hi B { st with blocks := st.nread :: st.blocks, nread := st.nread + 1, bHigh := st.bHigh } :=
        { desc := by
            simp only [List.pairwise_cons]
            exact ⟨fun c hc => (h.mem c hc).2, h.desc⟩
          mem := by
            intro c hc
            simp only [List.mem_cons] at hc
            rcases hc with rfl | hc
            · exact ⟨h.lo_le, Nat.lt_succ_self _⟩
            · exact ⟨(h.mem c hc).1, Nat.lt_succ_of_lt (h.mem c hc).2⟩
          lo_le := Nat.le_succ_of_le h.lo_le
          le_hi := by simp only; omega
          high := h.high }
      have hl := hnew.length_le
      simp only [Bool.false_and, Bool.false_eq_true, if_false]
      have hhigh : max st.bHigh (st.nread :: st.blocks).length ≤ B := by
        have := h.high
        simp only [List.length_cons] at hl ⊢
        omega
      exact ⟨hnew.desc, hnew.mem, hnew.lo_le, hnew.le_hi, hhigh⟩
    · exact h

/-- a streamed reader: at most the block read last is stored -/
structure BStr (st : St) : Prop where
  len : st.blocks.length ≤ 1
  mem : ∀ c ∈ st.blocks, c + 1 = st.nread
  high : st.bHigh ≤ 2

theorem readUpTo_streamed_BStr (b : Nat) : ∀ (fuel : Nat) (st : St),
    BStr st → BStr (readUpTo true fuel st b)
  | 0, st, h => by simpa [readUpTo] using h
  | fuel + 1, st, h => by
    unfold readUpTo
    split
    · apply readUpTo_streamed_BStr b fuel
      have hl := h.len
      have hh := h.high
      refine { len := ?_, mem := ?_, high := by simp only [List.length_cons]; omega }
      · simp only [READ_BLOCK_LOOKBACK_DROP, Bool.true_and]
        split
        · rename_i hpos
          simp only [decide_eq_true_eq] at hpos
          have : (st.nread :: st.blocks).filter (· != st.nread - 1) = [st.nread] := by
            rw [List.filter_cons_of_pos (by simp; omega)]
            congr 1
            apply List.filter_eq_nil_iff.2
            intro c hc
            have := h.mem c hc
            simp; omega
          rw [this]; simp
        · rename_i hpos
          simp only [decide_eq_true_eq, Nat.not_lt, Nat.le_zero] at hpos
          have : st.blocks = [] := by
            match hb : st.blocks with
            | [] => rfl
            | c :: _ => have := h.mem c (by simp [hb]); omega
          simp [this]
      · simp only [READ_BLOCK_LOOKBACK_DROP, Bool.true_and]
        intro c hc
        split at hc
        · have hc' := (List.mem_filter.1 hc)
          simp only [List.mem_cons, bne_iff_ne, ne_eq] at hc'
          rcases hc'.1 with rfl | hm
          · rfl
          · have := h.mem c hm; omega
        · rename_i hpos
          simp only [decide_eq_true_eq, Nat.not_lt, Nat.le_zero] at hpos
          simp only [List.mem_cons] at hc
          rcases hc with rfl | hm
          · rfl
          · have := h.mem c hm; omega
    · exact h

/-! ### `addLine` -/

theorem addLine_frame (st : St) (key : Nat × Nat) :
    (addLine st key).blocks = st.blocks ∧ (addLine st key).nread = st.nread ∧ (addLine st key).bHigh = st.bHigh
    ∧ (addLine st key).syslines = st.syslines ∧ (addLine st key).sHigh = st.sHigh := by
  unfold addLine
  split <;> simp

/-- the `lines` map: no key twice, every key allowed by `A`; `A` admits at most `Lb` keys -/
structure LOk (A : Nat × Nat → Prop) (Lb : Nat) (st : St) : Prop where
  nodup : st.lines.Nodup
  mem : ∀ p ∈ st.lines, A p
  high : st.lHigh ≤ Lb

theorem addLine_LOk {A : Nat × Nat → Prop} {Lb : Nat}
    (hcount : ∀ l : List (Nat × Nat), l.Nodup → (∀ p ∈ l, A p) → l.length ≤ Lb)
    (st : St) (key : Nat × Nat) (hk : A key) (h : LOk A Lb st) : LOk A Lb (addLine st key) := by
  unfold addLine
  split
  · exact h
  · rename_i hni
    have hn : (key :: st.lines).Nodup := List.nodup_cons.2 ⟨hni, h.nodup⟩
    have hm : ∀ p ∈ key :: st.lines, A p := by
      intro p hp
      rcases List.mem_cons.1 hp with rfl | hp
      · exact hk
      · exact h.mem p hp
    refine ⟨hn, hm, ?_⟩
    have := hcount _ hn hm
    have := h.high
    simp only [List.length_cons] at *
    omega

theorem addLine_mem (st : St) (key : Nat × Nat) : key ∈ (addLine st key).lines := by
  unfold addLine
  split
  · assumption
  · simp

theorem addLine_mono (st : St) (key p : Nat × Nat) (h : p ∈ st.lines) : p ∈ (addLine st key).lines := by
  unfold addLine
  split
  · assumption
  · simp [h]

/-! ### `findMsg` -/

/-- one step of the fold inside `findMsg` -/
def findStep (streamed : Bool) (st : St) (x : Nat × Nat × Ln) : St :=
  addLine (readUpTo streamed (x.2.2.l + 1) st x.2.2.l) (x.1, x.2.1)

/-- the list `findMsg` walks: the lines of message `k` and the first line of message `k + 1` -/
def look (msgs : List Msg) (k : Nat) : List (Nat × Nat × Ln) :=
  ((msgs.getD k []).zipIdx.map fun (ln, i) => (k, i, ln)) ++
    (match (msgs.getD (k + 1) []).head? with
     | some ln => [(k + 1, 0, ln)]
     | none => [])

theorem findMsg_eq (streamed : Bool) (msgs : List Msg) (st : St) (k : Nat) :
    findMsg streamed msgs st k =
      { (look msgs k).foldl (findStep streamed) st with
        syslines := k :: ((look msgs k).foldl (findStep streamed) st).syslines,
        sHigh := max ((look msgs k).foldl (findStep streamed) st).sHigh
                  (k :: ((look msgs k).foldl (findStep streamed) st).syslines).length } := by
  rfl

theorem mem_look {msgs : List Msg} {k : Nat} {x : Nat × Nat × Ln} (h : x ∈ look msgs k) :
    (x.1 = k ∧ x.2.1 < (msgs.getD k []).length ∧ x.2.2 ∈ msgs.getD k [])
    ∨ (x.1 = k + 1 ∧ x.2.1 = 0 ∧ (msgs.getD (k + 1) []).head? = some x.2.2) := by
  unfold look at h
  rcases List.mem_append.1 h with h | h
  · left
    obtain ⟨⟨ln, i⟩, hm, rfl⟩ := List.mem_map.1 h
    have := List.mem_zipIdx hm
    simp only at this ⊢
    refine ⟨trivial, by omega, ?_⟩
    rw [this.2.2]
    exact List.getElem_mem _
  · right
    split at h
    · rename_i ln hl
      simp only [List.mem_singleton] at h
      subst h
      exact ⟨rfl, rfl, hl⟩
    · simp at h

theorem look_of_mem {msgs : List Msg} {k : Nat} {ln : Ln} (h : ln ∈ msgs.getD k []) :
    ∃ i, (k, i, ln) ∈ look msgs k := by
  obtain ⟨i, hi, rfl⟩ := List.getElem_of_mem h
  refine ⟨i, ?_⟩
  unfold look
  apply List.mem_append_left
  refine List.mem_map.2 ⟨((msgs.getD k [])[i], i), ?_, rfl⟩
  exact List.mem_zipIdx_iff_getElem?.2 (by simp)

theorem foldStep_frame (streamed : Bool) : ∀ (xs : List (Nat × Nat × Ln)) (st : St),
    (xs.foldl (findStep streamed) st).syslines = st.syslines ∧ (xs.foldl (findStep streamed) st).sHigh = st.sHigh
    ∧ st.nread ≤ (xs.foldl (findStep streamed) st).nread
  | [], st => by simp
  | x :: xs, st => by
    simp only [List.foldl_cons]
    have h1 := foldStep_frame streamed xs (findStep streamed st x)
    have h2 := readUpTo_frame streamed x.2.2.l (x.2.2.l + 1) st
    have h3 := addLine_frame (readUpTo streamed (x.2.2.l + 1) st x.2.2.l) (x.1, x.2.1)
    unfold findStep at h1 ⊢
    refine ⟨by rw [h1.1, h3.2.2.2.1, h2.2.2.1], by rw [h1.2.1, h3.2.2.2.2, h2.2.2.2.1], ?_⟩
    have := h1.2.2
    rw [h3.2.1] at this
    have := h2.2.2.2.2
    omega

/-- every block touched by a line in the walked list has been read afterwards -/
theorem foldStep_nread_ge (streamed : Bool) : ∀ (xs : List (Nat × Nat × Ln)) (st : St) (x : Nat × Nat × Ln),
    x ∈ xs → x.2.2.l + 1 ≤ (xs.foldl (findStep streamed) st).nread
  | [], _, _, h => by simp at h
  | y :: xs, st, x, h => by
    simp only [List.foldl_cons]
    rcases List.mem_cons.1 h with rfl | h
    · have h1 := (foldStep_frame streamed xs (findStep streamed st x)).2.2
      have h2 := readUpTo_nread_ge streamed x.2.2.l (x.2.2.l + 1) st (by omega)
      have h3 := (addLine_frame (readUpTo streamed (x.2.2.l + 1) st x.2.2.l) (x.1, x.2.1)).2.1
      unfold findStep at h1
      rw [h3] at h1
      unfold findStep
      omega
    · exact foldStep_nread_ge streamed xs _ x h

/-! ### the invariant of the stage-3 loop (plain file, consumer not lagging) -/

/-- message `j` lies in blocks `j` and `j + 1`: it starts in block `j`, ends in block `j + 1`, has at
most `M` lines, and (so) one of its lines crosses the boundary between the two blocks -/
def Straddling (M : Nat) (msgs : List Msg) : Prop :=
  ∀ j, j < msgs.length →
    (msgs.getD j []).length ≤ M ∧ (msgs.getD j []).first = j ∧ (msgs.getD j []).last = j + 1
    ∧ (∀ ln ∈ msgs.getD j [], j ≤ ln.f ∧ ln.f ≤ ln.l ∧ ln.l ≤ j + 1) ∧ (⟨j, j + 1⟩ : Ln) ∈ msgs.getD j []

instance (M : Nat) (msgs : List Msg) : Decidable (Straddling M msgs) := by
  unfold Straddling; infer_instance

theorem BOk.congr {lo hi B : Nat} {s s' : St} (h : BOk lo hi B s) (h1 : s'.blocks = s.blocks)
    (h2 : s'.nread = s.nread) (h3 : s'.bHigh = s.bHigh) : BOk lo hi B s' :=
  ⟨h1 ▸ h.desc, by rw [h1, h2]; exact h.mem, h2 ▸ h.lo_le, h2 ▸ h.le_hi, h3 ▸ h.high⟩

theorem LOk.congr {A : Nat × Nat → Prop} {Lb : Nat} {s s' : St} (h : LOk A Lb s) (h1 : s'.lines = s.lines)
    (h2 : s'.lHigh = s.lHigh) : LOk A Lb s' :=
  ⟨h1 ▸ h.nodup, by rw [h1]; exact h.mem, h2 ▸ h.high⟩

theorem LOk.weaken {A A' : Nat × Nat → Prop} {Lb : Nat} {s : St} (h : LOk A Lb s) (hA : ∀ p, A p → A' p) :
    LOk A' Lb s :=
  ⟨h.nodup, fun p hp => hA p (h.mem p hp), h.high⟩

/-- at the head of iteration `k` -/
structure Inv (streamed : Bool) (msgs : List Msg) (M k : Nat) (st : St) : Prop where
  b : streamed = false → BOk (k - 4) (k + 2) 7 st
  nread_ge : k ≤ st.nread
  sdesc : st.syslines.Pairwise (· > ·)
  smem : ∀ j, j ∈ st.syslines ↔ j < k ∧ k ≤ j + 4
  shigh : st.sHigh ≤ 5
  l : LOk (fun p => p.2 < (msgs.getD p.1 []).length ∧ (p.1 ∈ st.syslines ∨ (p.1 = k ∧ p.2 = 0))) (5 * M + 1) st

/-- after `findMsg k` -/
structure Mid (streamed : Bool) (msgs : List Msg) (M k : Nat) (st : St) : Prop where
  b : streamed = false → BOk (k - 4) (k + 3) 7 st
  nread_ge : k + 1 ≤ st.nread
  sdesc : st.syslines.Pairwise (· > ·)
  smem : ∀ j, j ∈ st.syslines ↔ j ≤ k ∧ k ≤ j + 4
  shigh : st.sHigh ≤ 5
  l : LOk (fun p => p.2 < (msgs.getD p.1 []).length ∧ (p.1 ∈ st.syslines ∨ (p.1 = k + 1 ∧ p.2 = 0))) (5 * M + 1) st

theorem getD_len_nil (msgs : List Msg) (j : Nat) (h : msgs.length ≤ j) : msgs.getD j [] = [] := by
  simp [List.getD, List.getElem?_eq_none h]

theorem head_mem_lt {msgs : List Msg} {j : Nat} {ln : Ln} (h : (msgs.getD j []).head? = some ln) :
    j < msgs.length ∧ ln ∈ msgs.getD j [] := by
  refine ⟨?_, List.mem_of_mem_head? (by rw [h]; rfl)⟩
  apply Classical.byContradiction
  intro hn
  rw [getD_len_nil msgs j (by omega)] at h
  simp at h

theorem findMsg_inv {streamed : Bool} {msgs : List Msg} {M k : Nat} {st : St} (hS : Straddling M msgs)
    (hk : k < msgs.length) (h : Inv streamed msgs M k st) : Mid streamed msgs M k (findMsg streamed msgs st k) := by
  let A' : Nat × Nat → Prop := fun p =>
    p.2 < (msgs.getD p.1 []).length ∧ (p.1 ∈ st.syslines ∨ p.1 = k ∨ (p.1 = k + 1 ∧ p.2 = 0))
  have hcount : ∀ l : List (Nat × Nat), l.Nodup → (∀ p ∈ l, A' p) → l.length ≤ 5 * M + 1 := by
    intro l hn hm
    apply lines_count M k l hn
    intro p hp
    obtain ⟨h1, h2⟩ := hm p hp
    rcases h2 with h2 | h2 | h2
    · have := (h.smem p.1).1 h2
      have := (hS p.1 (by omega)).1
      left; omega
    · have := (hS p.1 (by omega)).1
      left; omega
    · right; exact Prod.ext h2.1 h2.2
  let P : St → Prop := fun s => (streamed = false → BOk (k - 4) (k + 3) 7 s) ∧ LOk A' (5 * M + 1) s
  have hP0 : P st := by
    refine ⟨fun hs => ⟨(h.b hs).desc, (h.b hs).mem, (h.b hs).lo_le, Nat.le_succ_of_le (h.b hs).le_hi, (h.b hs).high⟩,
      h.l.weaken ?_⟩
    intro p hp
    refine ⟨hp.1, ?_⟩
    rcases hp.2 with h2 | h2
    · exact Or.inl h2
    · exact Or.inr (Or.inl h2.1)
  have hstep : ∀ s x, x ∈ look msgs k → P s → P (findStep streamed s x) := by
    intro s x hx hPs
    have hfr := readUpTo_frame streamed x.2.2.l (x.2.2.l + 1) s
    have hfa := addLine_frame (readUpTo streamed (x.2.2.l + 1) s x.2.2.l) (x.1, x.2.1)
    have hl : x.2.2.l + 1 ≤ k + 3 ∧ A' (x.1, x.2.1) := by
      rcases mem_look hx with ⟨h1, h2, h3⟩ | ⟨h1, h2, h3⟩
      · have := ((hS k hk).2.2.2.1 _ h3).2.2
        refine ⟨by omega, ?_, Or.inr (Or.inl h1)⟩
        simp only [h1]; exact h2
      · obtain ⟨hlt, hm⟩ := head_mem_lt h3
        have := ((hS (k + 1) hlt).2.2.2.1 _ hm).2.2
        refine ⟨by omega, ?_, Or.inr (Or.inr ⟨h1, h2⟩)⟩
        simp only [h1, h2]
        exact List.length_pos_of_mem hm
    unfold findStep
    refine ⟨fun hs => ?_, addLine_LOk hcount _ _ hl.2 (hPs.2.congr hfr.1 hfr.2.1)⟩
    subst hs
    exact (readUpTo_plain_BOk (by omega) hl.1 _ s (hPs.1 rfl)).congr hfa.1 hfa.2.1 hfa.2.2.1
  have hP := foldl_inv P (findStep streamed) (look msgs k) st hstep hP0
  have hfr := foldStep_frame streamed (look msgs k) st
  obtain ⟨i, hi⟩ := look_of_mem (hS k hk).2.2.2.2
  have hnr := foldStep_nread_ge streamed (look msgs k) st _ hi
  rw [findMsg_eq]
  have hss : ((look msgs k).foldl (findStep streamed) st).syslines = st.syslines := hfr.1
  have hlen : st.syslines.length ≤ 4 := by
    have := desc_length_le st.syslines (k - 4) k h.sdesc (fun c hc => by have := (h.smem c).1 hc; omega)
    omega
  refine ⟨fun hs => (hP.1 hs).congr rfl rfl rfl, by simp only at hnr ⊢; omega, ?_, ?_, ?_, ?_⟩
  · simp only [hss, List.pairwise_cons]
    exact ⟨fun j hj => ((h.smem j).1 hj).1, h.sdesc⟩
  · intro j
    simp only [hss, List.mem_cons, h.smem j]
    omega
  · have := h.shigh
    simp only [hss, hfr.2.1, List.length_cons]
    omega
  · refine LOk.weaken (A := A') (hP.2.congr rfl rfl) ?_
    intro p hp
    refine ⟨hp.1, ?_⟩
    simp only [hss, List.mem_cons]
    rcases hp.2 with h2 | h2 | h2
    · exact Or.inl (Or.inr h2)
    · exact Or.inl (Or.inl h2)
    · exact Or.inr h2

/-! ### `dropTryG` with every line visited and a consumer that holds nothing -/

theorem mem_dropParts (ln : Ln) (c : Nat) : c ∈ dropParts ln ↔ ln.f ≤ c ∧ c < ln.l := by
  unfold dropParts
  simp only [List.mem_map, List.mem_range]
  constructor
  · rintro ⟨x, hx, rfl⟩; omega
  · intro h; exact ⟨c - ln.f, by omega, by omega⟩

/-- the `held` predicate of `loopG` for the consumer `prompt` -/
def heldPrompt (k : Nat) : Nat → Bool := fun j => decide (k < j + min (prompt k) (CHANNEL_CAPACITY + 2))

theorem heldPrompt_false {k j : Nat} (h : j ≤ k) : heldPrompt k j = false := by
  simp [heldPrompt, prompt]; omega

/-- what `drop_data_try` does when its guard holds, every line of a dropped message is visited and
the consumer holds nothing -/
theorem dropTryG_spec (msgs : List Msg) (st : St) (k prev : Nat)
    (hg : (msgs.getD prev []).first > DROP_TRY_GUARD) (hsl : ∀ j ∈ st.syslines, j ≤ k) :
    let r := dropTryG true msgs (heldPrompt k) st prev
    let t := (msgs.getD prev []).first - DROP_TRY_BACK
    r.syslines = st.syslines.filter (fun j => !decide ((msgs.getD j []).last ≤ t))
    ∧ (∀ p, p ∈ r.lines ↔ p ∈ st.lines ∧
          ¬ ((p.1 ∈ st.syslines ∧ (msgs.getD p.1 []).last ≤ t) ∧ p.2 < (msgs.getD p.1 []).length))
    ∧ r.lines.Sublist st.lines
    ∧ (∀ c, c ∈ r.blocks ↔ c ∈ st.blocks ∧
          ¬ ∃ j, (j ∈ st.syslines ∧ (msgs.getD j []).last ≤ t) ∧ ∃ ln ∈ msgs.getD j [], ln.f ≤ c ∧ c < ln.l)
    ∧ r.blocks.Sublist st.blocks
    ∧ r.nread = st.nread ∧ r.bHigh = st.bHigh ∧ r.lHigh = st.lHigh ∧ r.sHigh = st.sHigh := by
  intro r t
  have hok : ∀ j, j ∈ (st.syslines.filter fun j => decide ((msgs.getD j []).last ≤ t)).filter (fun j => !heldPrompt k j)
      ↔ (j ∈ st.syslines ∧ (msgs.getD j []).last ≤ t) := by
    intro j
    simp only [List.mem_filter, decide_eq_true_eq, Bool.not_eq_true']
    constructor
    · exact fun h => h.1
    · exact fun h => ⟨h, heldPrompt_false (hsl j h.1)⟩
  have hr : r = { st with
      syslines := st.syslines.filter fun j => !decide ((msgs.getD j []).last ≤ t),
      lines := st.lines.filter (fun p => !(((st.syslines.filter fun j => decide ((msgs.getD j []).last ≤ t)).filter
                  (fun j => !heldPrompt k j)).contains p.1 && decide (p.2 < dropVisited true (msgs.getD p.1 [])))),
      blocks := st.blocks.filter (fun b => !(((st.syslines.filter fun j => decide ((msgs.getD j []).last ≤ t)).filter
                  (fun j => !heldPrompt k j)).flatMap fun j =>
                    ((msgs.getD j []).take (dropVisited true (msgs.getD j []))).flatMap dropParts).contains b),
      leaked := st.leaked + ((st.syslines.filter fun j => decide ((msgs.getD j []).last ≤ t)).filter (heldPrompt k)).length } := by
    show dropTryG true msgs (heldPrompt k) st prev = _
    unfold dropTryG
    simp only []
    rw [if_pos hg]
  rw [hr]
  refine ⟨rfl, ?_, List.filter_sublist, ?_, List.filter_sublist, rfl, rfl, rfl, rfl⟩
  · intro p
    simp only [List.mem_filter, Bool.not_eq_true', Bool.and_eq_false_iff, dropVisited, if_true,
      decide_eq_false_iff_not]
    rw [← hok p.1]
    constructor
    · rintro ⟨h1, h2⟩
      refine ⟨h1, ?_⟩
      rintro ⟨h3, h4⟩
      rcases h2 with h2 | h2
      · rw [← List.contains_iff_mem, h2] at h3; exact Bool.noConfusion h3
      · exact h2 h4
    · rintro ⟨h1, h2⟩
      refine ⟨h1, ?_⟩
      by_cases h3 : p.1 ∈ (st.syslines.filter fun j => decide ((msgs.getD j []).last ≤ t)).filter (fun j => !heldPrompt k j)
      · right; exact fun h4 => h2 ⟨h3, h4⟩
      · left
        cases hc : ((st.syslines.filter fun j => decide ((msgs.getD j []).last ≤ t)).filter (fun j => !heldPrompt k j)).contains p.1
        · rfl
        · exact absurd (List.contains_iff_mem.1 hc) h3
  · intro c
    simp only [List.mem_filter, Bool.not_eq_true', dropVisited, if_true, List.take_length]
    rw [← Bool.not_eq_true, List.contains_iff_mem, List.mem_flatMap]
    constructor
    · rintro ⟨h1, h2⟩
      refine ⟨h1, ?_⟩
      rintro ⟨j, hj, ln, hln, hc⟩
      exact h2 ⟨j, (hok j).2 hj, List.mem_flatMap.2 ⟨ln, hln, (mem_dropParts ln c).2 hc⟩⟩
    · rintro ⟨h1, h2⟩
      refine ⟨h1, ?_⟩
      rintro ⟨j, hj, hc⟩
      obtain ⟨ln, hln, hc⟩ := List.mem_flatMap.1 hc
      exact h2 ⟨j, (hok j).1 hj, ln, hln, (mem_dropParts ln c).1 hc⟩

theorem dropTryG_noguard (v : Bool) (msgs : List Msg) (held : Nat → Bool) (st : St) (prev : Nat)
    (hg : ¬ (msgs.getD prev []).first > DROP_TRY_GUARD) : dropTryG v msgs held st prev = st := by
  unfold dropTryG
  simp only []
  rw [if_neg hg]

/-- the drop that follows sending message `k` -/
def dropStep (visitAll : Bool) (msgs : List Msg) (lag : Nat → Nat) (k : Nat) (st : St) : St :=
  if k ≥ 1 then dropTryG visitAll msgs (fun j => decide (k < j + min (lag k) (CHANNEL_CAPACITY + 2))) st (k - 1) else st

theorem loopG_succ (v s : Bool) (msgs : List Msg) (lag : Nat → Nat) (fuel k : Nat) (st : St) :
    loopG v s msgs lag (fuel + 1) k st =
      if k < msgs.length then
        (if k + 1 = msgs.length then findMsg s msgs st k
         else loopG v s msgs lag fuel (k + 1) (dropStep v msgs lag k (findMsg s msgs st k)))
      else st := by
  rfl

theorem Mid.to_Inv_nodrop {streamed : Bool} {msgs : List Msg} {M k : Nat} {st : St} (hk : k ≤ 2)
    (h : Mid streamed msgs M k st) : Inv streamed msgs M (k + 1) st := by
  have e1 : k + 1 - 4 = k - 4 := by omega
  have e2 : k + 1 + 2 = k + 3 := by omega
  refine ⟨by rw [e1, e2]; exact h.b, h.nread_ge, h.sdesc, ?_, h.shigh, h.l⟩
  intro j
  rw [h.smem j]
  omega

theorem dropStep_inv {streamed : Bool} {msgs : List Msg} {M k : Nat} {st : St} (hS : Straddling M msgs)
    (hk : k + 1 < msgs.length) (h : Mid streamed msgs M k st) :
    Inv streamed msgs M (k + 1) (dropStep true msgs prompt k st) := by
  unfold dropStep
  by_cases hk1 : k ≥ 1
  · rw [if_pos hk1]
    show Inv streamed msgs M (k + 1) (dropTryG true msgs (heldPrompt k) st (k - 1))
    have hfirst : (msgs.getD (k - 1) []).first = k - 1 := (hS (k - 1) (by omega)).2.1
    by_cases hg : k - 1 > 1
    · have hle : ∀ j ∈ st.syslines, j ≤ k := fun j hj => ((h.smem j).1 hj).1
      have hlast : ∀ j ∈ st.syslines, (msgs.getD j []).last = j + 1 := fun j hj =>
        (hS j (by have := hle j hj; omega)).2.2.1
      have ht : (msgs.getD (k - 1) []).first - DROP_TRY_BACK = k - 3 := by
        rw [hfirst]; show k - 1 - 2 = k - 3; omega
      have spec := dropTryG_spec msgs st k (k - 1) (by rw [hfirst]; exact hg) hle
      simp only [ht] at spec
      obtain ⟨e1, e2, e3, e4, e5, e6, e7, e8, e9⟩ := spec
      have hsm : ∀ j, j ∈ (dropTryG true msgs (heldPrompt k) st (k - 1)).syslines ↔ j < k + 1 ∧ k + 1 ≤ j + 4 := by
        intro j
        rw [e1, List.mem_filter]
        constructor
        · rintro ⟨h1, h2⟩
          have := (h.smem j).1 h1
          rw [hlast j h1] at h2
          simp only [Bool.not_eq_true', decide_eq_false_iff_not] at h2
          omega
        · intro h1
          have h2 : j ∈ st.syslines := (h.smem j).2 (by omega)
          refine ⟨h2, ?_⟩
          rw [hlast j h2]
          simp only [Bool.not_eq_true', decide_eq_false_iff_not]
          omega
      refine ⟨fun hs => ⟨(h.b hs).desc.sublist e5, ?_, by rw [e6]; have := h.nread_ge; omega, by rw [e6]; exact (h.b hs).le_hi,
          by rw [e7]; exact (h.b hs).high⟩, by rw [e6]; exact h.nread_ge, ?_, hsm, by rw [e9]; exact h.shigh,
          ⟨h.l.nodup.sublist e3, ?_, by rw [e8]; exact h.l.high⟩⟩
      · intro c hc
        obtain ⟨hc1, hc2⟩ := (e4 c).1 hc
        have hb := (h.b hs).mem c hc1
        rw [e6]
        refine ⟨?_, hb.2⟩
        apply Classical.byContradiction
        intro hlt
        have hck : c + 4 = k := by omega
        have hcs : c ∈ st.syslines := (h.smem c).2 (by omega)
        apply hc2
        refine ⟨c, ⟨hcs, by rw [hlast c hcs]; omega⟩, ⟨c, c + 1⟩, (hS c (by omega)).2.2.2.2, ?_⟩
        exact ⟨Nat.le_refl _, Nat.lt_succ_self _⟩
      · rw [e1]
        exact h.sdesc.filter _
      · intro p hp
        obtain ⟨hp1, hp2⟩ := (e2 p).1 hp
        have hA := h.l.mem p hp1
        refine ⟨hA.1, ?_⟩
        rcases hA.2 with h2 | h2
        · left
          rw [e1, List.mem_filter]
          refine ⟨h2, ?_⟩
          simp only [Bool.not_eq_true', decide_eq_false_iff_not]
          exact fun h3 => hp2 ⟨⟨h2, h3⟩, hA.1⟩
        · exact Or.inr h2
    · rw [dropTryG_noguard _ _ _ _ _ (by rw [hfirst]; exact hg)]
      exact h.to_Inv_nodrop (by omega)
  · rw [if_neg hk1]
    exact h.to_Inv_nodrop (by omega)

/-- the marks a state carries -/
def Bounded (streamed : Bool) (M : Nat) (st : St) : Prop :=
  (streamed = false → st.bHigh ≤ 7) ∧ st.lHigh ≤ 5 * M + 1 ∧ st.sHigh ≤ 5

theorem loopG_bounded {streamed : Bool} {msgs : List Msg} {M : Nat} (hS : Straddling M msgs) :
    ∀ (fuel k : Nat) (st : St),
    Inv streamed msgs M k st → Bounded streamed M (loopG true streamed msgs prompt fuel k st)
  | 0, _, st, h => ⟨fun hs => (h.b hs).high, h.l.high, h.shigh⟩
  | fuel + 1, k, st, h => by
    rw [loopG_succ]
    split
    · rename_i hk
      have hm := findMsg_inv hS hk h
      split
      · exact ⟨fun hs => (hm.b hs).high, hm.l.high, hm.shigh⟩
      · rename_i hne
        exact loopG_bounded hS fuel (k + 1) _ (dropStep_inv hS (by omega) hm)
    · exact ⟨fun hs => (h.b hs).high, h.l.high, h.shigh⟩

theorem Inv.init (streamed : Bool) (msgs : List Msg) (M : Nat) : Inv streamed msgs M 0 St.init := by
  refine ⟨fun _ => ⟨by simp [St.init], by simp [St.init], by simp [St.init], by simp [St.init], by simp [St.init]⟩,
    by simp [St.init], by simp [St.init], by simp [St.init], by simp [St.init],
    ⟨by simp [St.init], by simp [St.init], by simp [St.init]⟩⟩

/-- the invariant gives the bound for every number of messages -/
theorem runG_bounded {streamed : Bool} {msgs : List Msg} {M : Nat} (hS : Straddling M msgs) :
    Bounded streamed M (runG true streamed prompt msgs) :=
  loopG_bounded hS _ 0 _ (Inv.init streamed msgs M)

/-! ### a streamed reader: `blocks high ≤ 2` for every input, consumer and `drop_lines` variant -/

theorem BStr.congr {s s' : St} (h : BStr s) (h1 : s'.blocks = s.blocks) (h2 : s'.nread = s.nread)
    (h3 : s'.bHigh = s.bHigh) : BStr s' :=
  ⟨h1 ▸ h.len, by rw [h1, h2]; exact h.mem, h3 ▸ h.high⟩

theorem dropTryG_blocks (v : Bool) (msgs : List Msg) (held : Nat → Bool) (st : St) (prev : Nat) :
    (dropTryG v msgs held st prev).blocks.Sublist st.blocks
    ∧ (dropTryG v msgs held st prev).nread = st.nread ∧ (dropTryG v msgs held st prev).bHigh = st.bHigh := by
  unfold dropTryG
  simp only []
  split
  · exact ⟨List.filter_sublist, rfl, rfl⟩
  · exact ⟨List.Sublist.refl _, rfl, rfl⟩

theorem BStr.sub {s s' : St} (h : BStr s) (h1 : s'.blocks.Sublist s.blocks) (h2 : s'.nread = s.nread)
    (h3 : s'.bHigh = s.bHigh) : BStr s' :=
  ⟨Nat.le_trans h1.length_le h.len, fun c hc => by rw [h2]; exact h.mem c (h1.subset hc), h3 ▸ h.high⟩

theorem findMsg_BStr (msgs : List Msg) (st : St) (k : Nat) (h : BStr st) : BStr (findMsg true msgs st k) := by
  rw [findMsg_eq]
  have hP := foldl_inv BStr (findStep true) (look msgs k) st (fun s x _ hs => by
    have hfa := addLine_frame (readUpTo true (x.2.2.l + 1) s x.2.2.l) (x.1, x.2.1)
    exact (readUpTo_streamed_BStr _ _ s hs).congr hfa.1 hfa.2.1 hfa.2.2.1) h
  exact hP.congr rfl rfl rfl

theorem loopG_BStr (v : Bool) (msgs : List Msg) (lag : Nat → Nat) : ∀ (fuel k : Nat) (st : St),
    BStr st → BStr (loopG v true msgs lag fuel k st)
  | 0, _, _, h => h
  | fuel + 1, k, st, h => by
    rw [loopG_succ]
    split
    · have hm := findMsg_BStr msgs st k h
      split
      · exact hm
      · apply loopG_BStr v msgs lag fuel (k + 1)
        unfold dropStep
        split
        · have := dropTryG_blocks v msgs (fun j => decide (k < j + min (lag k) (CHANNEL_CAPACITY + 2))) (findMsg true msgs st k) (k - 1)
          exact hm.sub this.1 this.2.1 this.2.2
        · exact hm
    · exact h

theorem runG_streamed_bHigh (v : Bool) (lag : Nat → Nat) (msgs : List Msg) : (runG v true lag msgs).bHigh ≤ 2 :=
  (loopG_BStr v msgs lag _ 0 St.init ⟨by simp [St.init], by simp [St.init], by simp [St.init]⟩).high

/-! ### the input families -/

theorem getD_map_range (n j : Nat) (f : Nat → Msg) (h : j < n) : ((List.range n).map f).getD j [] = f j := by
  simp [List.getD, h]

theorem straddle_Straddling (n : Nat) : Straddling 1 (straddle n) := by
  intro j hj
  have hj' : j < n := by simpa [straddle] using hj
  unfold straddle
  rw [getD_map_range n j _ hj']
  simp [Msg.first, Msg.last]

theorem cross3_Straddling (n : Nat) : Straddling 3 (cross3 n) := by
  intro j hj
  have hj' : j < n := by simpa [cross3] using hj
  unfold cross3
  rw [getD_map_range n j _ hj']
  simp [Msg.first, Msg.last]

/-! ### the short-circuit `drop_lines`: lines after the first block-releasing line are never dropped -/

theorem look_of_idx {msgs : List Msg} {k i : Nat} (hi : i < (msgs.getD k []).length) :
    (k, i, (msgs.getD k [])[i]) ∈ look msgs k := by
  unfold look
  apply List.mem_append_left
  refine List.mem_map.2 ⟨((msgs.getD k [])[i], i), ?_, rfl⟩
  exact List.mem_zipIdx_iff_getElem?.2 (by simp)

/-- `lines high` is at least the number of stored lines -/
def LHi (st : St) : Prop := st.lines.length ≤ st.lHigh

theorem findStep_lines (streamed : Bool) (st : St) (x : Nat × Nat × Ln) :
    (LHi st → LHi (findStep streamed st x)) ∧ (∀ p ∈ st.lines, p ∈ (findStep streamed st x).lines)
    ∧ (x.1, x.2.1) ∈ (findStep streamed st x).lines := by
  have hfr := readUpTo_frame streamed x.2.2.l (x.2.2.l + 1) st
  unfold findStep
  refine ⟨?_, fun p hp => addLine_mono _ _ _ (by rw [hfr.1]; exact hp), addLine_mem _ _⟩
  intro h
  unfold LHi at h ⊢
  unfold addLine
  split
  · rw [hfr.1, hfr.2.1]; exact h
  · simp only [List.length_cons, hfr.1, hfr.2.1]; omega

theorem foldStep_lines (streamed : Bool) : ∀ (xs : List (Nat × Nat × Ln)) (st : St),
    (LHi st → LHi (xs.foldl (findStep streamed) st)) ∧ (∀ p ∈ st.lines, p ∈ (xs.foldl (findStep streamed) st).lines)
    ∧ (∀ x ∈ xs, (x.1, x.2.1) ∈ (xs.foldl (findStep streamed) st).lines)
  | [], st => by simp
  | y :: xs, st => by
    simp only [List.foldl_cons]
    have h1 := findStep_lines streamed st y
    have h2 := foldStep_lines streamed xs (findStep streamed st y)
    refine ⟨fun h => h2.1 (h1.1 h), fun p hp => h2.2.1 p (h1.2.1 p hp), ?_⟩
    intro x hx
    rcases List.mem_cons.1 hx with rfl | hx
    · exact h2.2.1 _ h1.2.2
    · exact h2.2.2 x hx

theorem dropTryG_lines (v : Bool) (msgs : List Msg) (held : Nat → Bool) (st : St) (prev : Nat) :
    (LHi st → LHi (dropTryG v msgs held st prev))
    ∧ (∀ p ∈ st.lines, dropVisited v (msgs.getD p.1 []) ≤ p.2 → p ∈ (dropTryG v msgs held st prev).lines) := by
  unfold dropTryG
  simp only []
  split
  · refine ⟨fun h => ?_, fun p hp hv => ?_⟩
    · unfold LHi at h ⊢
      exact Nat.le_trans (List.filter_sublist.length_le) h
    · apply List.mem_filter.2 ⟨hp, ?_⟩
      have : decide (p.2 < dropVisited v (msgs.getD p.1 [])) = false :=
        decide_eq_false (Nat.not_lt.2 hv)
      rw [this, Bool.and_false]
      rfl
  · exact ⟨id, fun p hp _ => hp⟩

theorem cross3_visited (n j : Nat) : dropVisited false ((cross3 n).getD j []) ≤ 2 := by
  by_cases hj : j < n
  · unfold cross3
    rw [getD_map_range n j _ hj]
    simp [dropVisited, List.findIdx_cons]
  · rw [getD_len_nil _ _ (by simp [cross3]; omega)]
    simp [dropVisited]

/-- every third line of the messages handled so far is still stored -/
structure GInv (k : Nat) (st : St) : Prop where
  hi : LHi st
  mem : ∀ j, j < k → (j, 2) ∈ st.lines

theorem GInv.bound {k : Nat} {st : St} (h : GInv k st) : k ≤ st.lHigh := by
  have hsub : List.range k ⊆ st.lines.map Prod.fst := by
    intro j hj
    exact List.mem_map.2 ⟨(j, 2), h.mem j (List.mem_range.1 hj), rfl⟩
  have := List.Nodup.length_le_of_subset List.nodup_range hsub
  have := h.hi
  unfold LHi at this
  simp only [List.length_range, List.length_map] at *
  omega

theorem loopG_short_circuit_grows (streamed : Bool) (lag : Nat → Nat) (n : Nat) : ∀ (fuel k : Nat) (st : St),
    GInv k st → k ≤ n → n + 1 ≤ fuel + k → n ≤ (loopG false streamed (cross3 n) lag fuel k st).lHigh
  | 0, k, st, h, h1, h2 => by
    have : k = n + 1 := by omega
    omega
  | fuel + 1, k, st, h, h1, h2 => by
    have hlen : (cross3 n).length = n := by simp [cross3]
    rw [loopG_succ, hlen]
    split
    · rename_i hk
      have hf := foldStep_lines streamed (look (cross3 n) k) st
      have hmid : GInv (k + 1) (findMsg streamed (cross3 n) st k) := by
        rw [findMsg_eq]
        refine ⟨hf.1 h.hi, ?_⟩
        intro j hj
        by_cases hjk : j < k
        · exact hf.2.1 _ (h.mem j hjk)
        · have hjk' : j = k := by omega
          subst hjk'
          have hl : 2 < ((cross3 n).getD j []).length := by
            unfold cross3; rw [getD_map_range n j _ hk]; simp
          exact hf.2.2 _ (look_of_idx hl)
      split
      · rename_i hlast
        have := hmid.bound
        omega
      · apply loopG_short_circuit_grows streamed lag n fuel (k + 1) _ _ (by omega) (by omega)
        unfold dropStep
        split
        · have hd := dropTryG_lines false (cross3 n) (fun j => decide (k < j + min (lag k) (CHANNEL_CAPACITY + 2)))
            (findMsg streamed (cross3 n) st k) (k - 1)
          exact ⟨hd.1 hmid.hi, fun j hj => hd.2 _ (hmid.mem j hj) (cross3_visited n j)⟩
        · exact hmid
    · have : k = n := by omega
      subst this
      exact h.bound

/-- with the short-circuit `drop_lines`, `lines high` is at least the number of messages -/
theorem runG_short_circuit_grows (streamed : Bool) (lag : Nat → Nat) (n : Nat) :
    n ≤ (runG false streamed lag (cross3 n)).lHigh := by
  unfold runG
  have hlen : (cross3 n).length = n := by simp [cross3]
  rw [hlen]
  exact loopG_short_circuit_grows streamed lag n (n + 1) 0 St.init
    ⟨by simp [LHi, St.init], fun j hj => absurd hj (Nat.not_lt_zero _)⟩ (Nat.zero_le _) (by omega)

end S4V.Lemmas.Mem
