/-
Lemmas for `S4V.Props.LayoutDetectSpec` (generic facts about the hand model `S4V.Model.LayoutDetect`;
nothing here depends on the contents of the generated tables).
-/
import S4V.Model.LayoutDetect

namespace S4V.Lemmas.LayoutDetect
open S4V.Gen.LayoutDetect S4V.Model.LayoutDetect
open S4V.Model.Fixed (Bytes)

/-! ### the "try all types anyway" fold of `filesz_to_types` -/

abbrev Row := String × Nat × Int

def addRow (filesz : Nat) (s : List (String × Int)) (r : Row) : List (String × Int) :=
  if filesz % r.2.1 = 0 ∧ ¬ s.any (·.1 == r.1) then s ++ [(r.1, r.2.2)] else s

theorem candsWith_eq (bR : Kind → List (String × Nat)) (aR : List Row) (k : Kind) (filesz : Nat) :
    candsWith bR aR k filesz = aR.foldl (addRow filesz)
      ((bR k).filterMap (fun r => if filesz % r.2 = 0 then some (r.1, BONUS) else none)) := rfl

theorem cands_eq (k : Kind) (filesz : Nat) :
    cands k filesz = allRows.foldl (addRow filesz)
      ((bonusRows k).filterMap (fun r => if filesz % r.2 = 0 then some (r.1, BONUS) else none)) := rfl

theorem foldl_addRow_keeps (filesz : Nat) (rows : List Row) (s : List (String × Int)) (x : String × Int) (hx : x ∈ s) :
    x ∈ rows.foldl (addRow filesz) s := by
  induction rows generalizing s with
  | nil => simpa using hx
  | cons r rs ih =>
    simp only [List.foldl_cons]
    apply ih
    unfold addRow
    split
    · exact List.mem_append_left _ hx
    · exact hx

theorem foldl_addRow_has (filesz : Nat) (rows : List Row) (s : List (String × Int)) (r : Row) (hr : r ∈ rows)
    (hd : filesz % r.2.1 = 0) : ∃ b, (r.1, b) ∈ rows.foldl (addRow filesz) s := by
  induction rows generalizing s with
  | nil => cases hr
  | cons q qs ih =>
    simp only [List.foldl_cons]
    rcases List.mem_cons.mp hr with h | h
    · subst h
      by_cases hany : s.any (·.1 == r.1) = true
      · -- already present: it stays
        rcases List.any_eq_true.mp hany with ⟨y, hy, hyn⟩
        have : y.1 = r.1 := by simpa using hyn
        refine ⟨y.2, ?_⟩
        apply foldl_addRow_keeps
        unfold addRow
        have hy' : (r.1, y.2) ∈ s := by rw [← this]; exact hy
        split
        · exact List.mem_append_left _ hy'
        · exact hy'
      · refine ⟨r.2.2, ?_⟩
        apply foldl_addRow_keeps
        unfold addRow
        rw [if_pos ⟨hd, hany⟩]
        exact List.mem_append_right _ (List.mem_singleton.mpr rfl)
    · exact ih _ h

theorem foldl_addRow_origin (filesz : Nat) (rows : List Row) (s : List (String × Int)) (x : String × Int)
    (hx : x ∈ rows.foldl (addRow filesz) s) :
    x ∈ s ∨ ∃ r ∈ rows, r.1 = x.1 ∧ r.2.2 = x.2 ∧ filesz % r.2.1 = 0 := by
  induction rows generalizing s with
  | nil => left; simpa using hx
  | cons q qs ih =>
    simp only [List.foldl_cons] at hx
    rcases ih _ hx with h | ⟨r, hr, h⟩
    · unfold addRow at h
      split at h
      · rename_i hc
        rcases List.mem_append.mp h with h | h
        · left; exact h
        · right
          have : x = (q.1, q.2.2) := List.mem_singleton.mp h
          exact ⟨q, List.mem_cons_self, by rw [this], by rw [this], hc.1⟩
      · left; exact h
    · right; exact ⟨r, List.mem_cons_of_mem _ hr, h⟩

/-! ### names in the candidate set; the set in declaration order -/

theorem filterMap_names_sublist (filesz : Nat) (l : List (String × Nat)) :
    ((l.filterMap (fun r => if filesz % r.2 = 0 then some (r.1, BONUS) else none)).map (·.1)).Sublist (l.map (·.1)) := by
  induction l with
  | nil => simp
  | cons r rs ih =>
    by_cases h : filesz % r.2 = 0
    · simp only [List.filterMap_cons, h, if_true, List.map_cons]
      exact List.Sublist.cons_cons _ ih
    · simp only [List.filterMap_cons, h, if_false, List.map_cons]
      exact List.Sublist.cons _ ih

theorem foldl_addRow_names_nodup (filesz : Nat) (rows : List Row) (s : List (String × Int)) (hs : (s.map (·.1)).Nodup) :
    ((rows.foldl (addRow filesz) s).map (·.1)).Nodup := by
  induction rows generalizing s with
  | nil => simpa using hs
  | cons r rs ih =>
    simp only [List.foldl_cons]
    apply ih
    unfold addRow
    split
    · rename_i hc
      rw [List.map_append, List.nodup_append]
      refine ⟨hs, by simp, ?_⟩
      intro a ha b hb
      simp only [List.map_cons, List.map_nil, List.mem_singleton] at hb
      subst hb
      intro hab
      apply hc.2
      rcases List.mem_map.mp ha with ⟨x, hx, hxa⟩
      exact List.any_eq_true.mpr ⟨x, hx, by simp [hxa, hab]⟩
    · exact hs

theorem nodup_of_map_nodup {α β : Type} (f : α → β) : ∀ (l : List α), (l.map f).Nodup → l.Nodup := by
  intro l
  induction l with
  | nil => intro _; exact List.nodup_nil
  | cons x xs ih =>
    intro h
    rw [List.map_cons, List.nodup_cons] at h
    rw [List.nodup_cons]
    exact ⟨fun hx => h.1 (List.mem_map.mpr ⟨x, hx, rfl⟩), ih h.2⟩

theorem find?_of_nodup_names : ∀ (C : List (String × Int)) (c : String × Int), (C.map (·.1)).Nodup → c ∈ C →
    C.find? (·.1 == c.1) = some c := by
  intro C
  induction C with
  | nil => intro c _ hc; cases hc
  | cons x xs ih =>
    intro c hn hc
    rw [List.map_cons, List.nodup_cons] at hn
    by_cases hx : x.1 = c.1
    · rcases List.mem_cons.mp hc with h | h
      · subst h; simp
      · exfalso; apply hn.1; rw [hx]; exact List.mem_map.mpr ⟨c, h, rfl⟩
    · rcases List.mem_cons.mp hc with h | h
      · subst h; exact absurd rfl hx
      · rw [List.find?_cons_of_neg (by simpa using hx)]
        exact ih c hn.2 h

theorem mem_filterMap_find (D : List String) (C : List (String × Int)) (hC : (C.map (·.1)).Nodup) (c : String × Int) :
    c ∈ D.filterMap (fun n => C.find? (·.1 == n)) ↔ c ∈ C ∧ c.1 ∈ D := by
  rw [List.mem_filterMap]
  constructor
  · rintro ⟨n, hn, hf⟩
    have h1 := List.mem_of_find?_eq_some hf
    have h2 := List.find?_some hf
    have : c.1 = n := by simpa using h2
    exact ⟨h1, this ▸ hn⟩
  · rintro ⟨hc, hd⟩
    exact ⟨c.1, hd, find?_of_nodup_names C c hC hc⟩

theorem filterMap_find_names_sublist (C : List (String × Int)) : ∀ (D : List String),
    ((D.filterMap (fun n => C.find? (·.1 == n))).map (·.1)).Sublist D := by
  intro D
  induction D with
  | nil => simp
  | cons n ns ih =>
    cases hf : C.find? (·.1 == n) with
    | none => simp only [List.filterMap_cons, hf]; exact List.Sublist.cons _ ih
    | some c =>
      have : c.1 = n := by simpa using List.find?_some hf
      simp only [List.filterMap_cons, hf, List.map_cons, this]
      exact List.Sublist.cons_cons _ ih

/-! ### the candidate loop of `score_file` -/

/-- what `chooseGo` returns, for the comparison `>` -/
theorem chooseGo_spec (hstrict : replaceStrict = true) (score : String × Int → Int) :
    ∀ (ord : List (String × Int)) (best : Int) (who : Option String) (s : Int) (w : Option String),
      chooseGo score ord (best, who) = (s, w) →
      (w = who ∧ s = best ∧ ∀ c ∈ ord, score c ≤ best) ∨
      (∃ pre c post, ord = pre ++ c :: post ∧ w = some c.1 ∧ s = score c ∧ score c > best ∧
        (∀ d ∈ pre, score d < score c) ∧ (∀ d ∈ post, score d ≤ score c)) := by
  intro ord
  induction ord with
  | nil =>
    intro best who s w h
    simp only [chooseGo] at h
    left
    injection h with h1 h2
    exact ⟨h2.symm, h1.symm, by intro c hc; cases hc⟩
  | cons c cs ih =>
    intro best who s w h
    simp only [chooseGo, hstrict, if_true] at h
    by_cases hgt : score c > best
    · rw [if_pos (by simpa using hgt)] at h
      rcases ih _ _ _ _ h with ⟨hw, hs, hall⟩ | ⟨pre, c', post, hsplit, hw, hs, hgt', hpre, hpost⟩
      · right
        refine ⟨[], c, cs, rfl, hw, hs, hgt, ?_, ?_⟩
        · intro d hd; cases hd
        · intro d hd; exact hall d hd
      · right
        refine ⟨c :: pre, c', post, by rw [hsplit]; rfl, hw, hs, by omega, ?_, hpost⟩
        intro d hd
        rcases List.mem_cons.mp hd with h | h
        · subst h; exact hgt'
        · exact hpre d h
    · rw [if_neg (by simpa using hgt)] at h
      rcases ih _ _ _ _ h with ⟨hw, hs, hall⟩ | ⟨pre, c', post, hsplit, hw, hs, hgt', hpre, hpost⟩
      · left
        refine ⟨hw, hs, ?_⟩
        intro d hd
        rcases List.mem_cons.mp hd with h | h
        · subst h; omega
        · exact hall d h
      · right
        refine ⟨c :: pre, c', post, by rw [hsplit]; rfl, hw, hs, hgt', ?_, hpost⟩
        intro d hd
        rcases List.mem_cons.mp hd with h | h
        · subst h; omega
        · exact hpre d h

/-! ### the record loop of `score_file` -/

theorem scanGo_sampled (score : Bytes → Int) :
    ∀ (rs : List Bytes) (n : Nat) (hs : Int), scanGo score rs n hs = scanGo score (sampled rs n) n hs := by
  intro rs
  induction rs with
  | nil => intro n hs; simp [sampled]
  | cons r rs ih =>
    intro n hs
    by_cases hn : n = 0
    · subst hn; simp [scanGo, sampled]
    · by_cases hnull : isNullRec r = true
      · simp only [scanGo, sampled, hn, hnull, if_true, if_false]
        exact ih n hs
      · have hnull' : isNullRec r = false := by simpa using hnull
        simp only [scanGo, sampled, hn, hnull', if_false, Bool.false_eq_true]
        exact ih _ _

theorem sampled_length_le : ∀ (rs : List Bytes) (n : Nat), (sampled rs n).length ≤ n := by
  intro rs
  induction rs with
  | nil => intro n; simp [sampled]
  | cons r rs ih =>
    intro n
    by_cases hn : n = 0
    · subst hn; simp [sampled]
    · by_cases hnull : isNullRec r = true
      · simp only [sampled, hn, hnull, if_true, if_false]; exact ih n
      · have hnull' : isNullRec r = false := by simpa using hnull
        simp only [sampled, hn, hnull', if_false, Bool.false_eq_true, List.length_cons]
        have := ih (n - 1)
        omega

theorem sampled_all_nonnull : ∀ (rs : List Bytes) (n : Nat), ∀ r ∈ sampled rs n, isNullRec r = false ∧ r ∈ rs := by
  intro rs
  induction rs with
  | nil => intro n r hr; simp [sampled] at hr
  | cons q qs ih =>
    intro n r hr
    by_cases hn : n = 0
    · subst hn; simp [sampled] at hr
    · by_cases hnull : isNullRec q = true
      · simp only [sampled, hn, hnull, if_true, if_false] at hr
        exact ⟨(ih n r hr).1, List.mem_cons_of_mem _ (ih n r hr).2⟩
      · have hnull' : isNullRec q = false := by simpa using hnull
        simp only [sampled, hn, hnull', if_false, Bool.false_eq_true] at hr
        rcases List.mem_cons.mp hr with h | h
        · subst h; exact ⟨hnull', List.mem_cons_self⟩
        · exact ⟨(ih _ r h).1, List.mem_cons_of_mem _ (ih _ r h).2⟩

/-! ### records of a file -/

theorem chunksN_getElem? (sz : Nat) : ∀ (k : Nat) (f : Bytes) (i : Nat), i < k →
    (chunksN sz k f)[i]? = some ((f.drop (i * sz)).take sz) := by
  intro k
  induction k with
  | zero => intro f i hi; omega
  | succ k ih =>
    intro f i hi
    cases i with
    | zero => simp [chunksN]
    | succ i =>
      simp only [chunksN, List.getElem?_cons_succ]
      rw [ih (f.drop sz) i (by omega), List.drop_drop]
      rw [Nat.succ_mul, Nat.add_comm sz (i * sz)]

theorem chunksN_length (sz : Nat) : ∀ (k : Nat) (f : Bytes), (chunksN sz k f).length = k := by
  intro k
  induction k with
  | zero => intro f; rfl
  | succ k ih => intro f; simp [chunksN, ih]

/-! ### over-reading -/

theorem cstrOverreads_false_of_last_nul (rec : Bytes) (off : Nat) (hoff : off < rec.length)
    (hlast : rec.getLast? = some 0) : cstrOverreads rec off = false := by
  unfold cstrOverreads
  rw [Bool.eq_false_iff]
  intro hall
  have hne : rec.drop off ≠ [] := by
    intro h
    have := List.drop_eq_nil_iff.mp h
    omega
  have hl : (rec.drop off).getLast? = some 0 := by
    rw [List.getLast?_drop]
    rw [if_neg (by omega)]
    exact hlast
  have hmem : (0 : UInt8) ∈ rec.drop off := List.mem_of_getLast? hl
  have := List.all_eq_true.mp hall 0 hmem
  simp at this

end S4V.Lemmas.LayoutDetect
