/-
`between` and the streaming loop `streamAll` (properties C02 / C03).
-/
import S4V.Lemmas.SyslSearch

namespace S4V.Lemmas.Syslines
open S4V.Model.Syslines S4V.Gen.Filter

/-- the search step used by `between` -/
def searchStep (ls : List LineInfo) (streamed : Bool) (fo : Nat) (a : Option Int) :
    S4V.Model.Syslines.Res :=
  if streamed then lsearch ls a (ls.length + 2) fo else bsearch ls fo a

theorem between_eq (ls : List LineInfo) (streamed : Bool) (fo : Nat) (a b : Option Int) :
    between ls streamed fo a b =
      match searchStep ls streamed fo a with
      | .found fo' s =>
        match dtPassFilters s.dt a b with
        | .InRange => .found fo' s
        | _ => .done
      | .done => .done
      | r => r := rfl

/-- the selection predicate of the window `[a, b]` -/
def inWindow (a b : Option Int) (m : Sysl) : Bool := decide (dtPassFilters m.dt a b = .InRange)

theorem inWindow_iff (a b : Option Int) (m : Sysl) :
    inWindow a b m = true ↔ geA a m.dt ∧ leB b m.dt := by
  simp [inWindow, dtPassFilters_inRange_iff, geA, leB]

theorem bsearch_suffix_none {ls : List LineInfo} {M : List Sysl} {s0 : Nat} (hc : Ctx ls M s0)
    {M1 M2 : List Sysl} (hM : M = M1 ++ M2) {F : Nat} (hF : StartAt s0 M1 F) :
    bsearch ls F none = firstGE none M2 := by
  have hfind := hc.fsM_start hM hF
  cases M2 with
  | nil =>
    rw [firstGE_nil]
    apply bsearch_all_done
    intro x hx
    rw [hc.find]
    have hcg := hc.contig
    rcases hF with ⟨rfl, _⟩ | rfl
    · simp at hM; subst hM; rfl
    · apply fsM_beyond hcg
      simp at hM; subst hM; exact hx
  | cons m r =>
    rw [headRes_cons] at hfind
    rw [firstGE_cons_pos (geA_none _)]
    exact bsearch_first_hit hfind (geA_none _)

section
variable {ls : List LineInfo} {M : List Sysl} {s0 : Nat}

/-- the streaming loop, given a correct search step and a monotone upper bound -/
theorem streamLoop_suffix (hc : Ctx ls M s0) (streamed : Bool) (a b : Option Int)
    (hS : ∀ (M1 M2 : List Sysl) (F : Nat), M = M1 ++ M2 → StartAt s0 M1 F →
      searchStep ls streamed F a = firstGE a M2)
    (hb : ∀ (X : List Sysl) (m : Sysl) (Y : List Sysl), M = X ++ m :: Y → ¬ leB b m.dt →
      ∀ y ∈ Y, ¬ leB b y.dt) :
    ∀ (fuel : Nat) (M2 M1 : List Sysl) (F : Nat), M = M1 ++ M2 → StartAt s0 M1 F →
      M2.length + 1 ≤ fuel →
      streamLoop ls streamed a b fuel F = M2.filter (inWindow a b) := by
  intro fuel
  induction fuel with
  | zero => intro M2 M1 F _ _ hf; omega
  | succ f ih =>
    intro M2 M1 F hM hF hf
    rw [streamLoop, between_eq, hS M1 M2 F hM hF]
    unfold firstGE
    cases hfind : M2.find? (fun m => decide (geA a m.dt)) with
    | none =>
      simp only
      symm
      rw [List.filter_eq_nil_iff]
      intro x hx hw
      have := List.find?_eq_none.1 hfind x hx
      exact this (by simpa using ((inWindow_iff a b x).1 hw).1)
    | some m =>
      obtain ⟨hge, X, Y, hXY, hX⟩ := List.find?_eq_some_iff_append.1 hfind
      have hge' : geA a m.dt := by simpa using hge
      have hXf : X.filter (inWindow a b) = [] := by
        rw [List.filter_eq_nil_iff]
        intro x hx hw
        have := hX x hx
        have h2 := ((inWindow_iff a b x).1 hw).1
        simp [h2] at this
      have hfl : M2.filter (inWindow a b) = (m :: Y).filter (inWindow a b) := by
        rw [hXY, List.filter_append, hXf, List.nil_append]
      rw [hfl]
      by_cases hle : leB b m.dt
      · have hin : dtPassFilters m.dt a b = .InRange :=
          (dtPassFilters_inRange_iff _ _ _).2 ⟨hge', hle⟩
        have hwin : inWindow a b m = true := (inWindow_iff a b m).2 ⟨hge', hle⟩
        simp only [hin]
        rw [List.filter_cons_of_pos hwin]
        have hM' : M = (M1 ++ X ++ [m]) ++ Y := by rw [hM, hXY]; simp
        have hcg := hc.contig
        have hsz := hc.sz
        rw [hM'] at hcg hsz
        obtain ⟨hc1, hc2⟩ := (MContig_append _ _ _).1 hcg
        rw [mEnd_append] at hsz
        have hend : mEnd s0 (M1 ++ X ++ [m]) = m.fin + 1 := by rw [mEnd_append]; rfl
        rw [hend] at hc2 hsz
        cases Y with
        | nil =>
          have : isSyslineLast ls m = true := (isSyslineLast_iff ls m).2 (by simpa using hsz)
          simp [this]
        | cons y Y' =>
          have hlt := hc2.lt_mEnd (by simp)
          have : ¬ isSyslineLast ls m = true := by
            rw [isSyslineLast_iff]; omega
          simp only [this, if_false, Bool.false_eq_true]
          congr 1
          apply ih (y :: Y') (M1 ++ X ++ [m]) (m.fin + 1) hM' (Or.inr hend.symm)
          have : M2.length = X.length + 1 + (y :: Y').length := by rw [hXY]; simp; omega
          omega
      · have hnin : dtPassFilters m.dt a b ≠ .InRange := by
          rw [Ne, dtPassFilters_inRange_iff]; exact fun h => hle h.2
        have hall : (m :: Y).filter (inWindow a b) = [] := by
          rw [List.filter_eq_nil_iff]
          intro x hx hw
          have h2 := ((inWindow_iff a b x).1 hw).2
          rcases List.mem_cons.1 hx with rfl | hx
          · exact hle h2
          · exact hb (M1 ++ X) m Y (by rw [hM, hXY]; simp) hle x hx h2
        rw [hall]
        cases hp : dtPassFilters m.dt a b with
        | InRange => exact absurd hp hnin
        | BeforeRange => simp only [hp]
        | AfterRange => simp only [hp]

theorem streamAll_of_ctx (hc : Ctx ls M s0) (streamed : Bool) (a b : Option Int)
    (hS : ∀ (M1 M2 : List Sysl) (F : Nat), M = M1 ++ M2 → StartAt s0 M1 F →
      searchStep ls streamed F a = firstGE a M2)
    (hb : ∀ (X : List Sysl) (m : Sysl) (Y : List Sysl), M = X ++ m :: Y → ¬ leB b m.dt →
      ∀ y ∈ Y, ¬ leB b y.dt) :
    streamAll ls streamed a b = M.filter (inWindow a b) := by
  unfold streamAll
  exact streamLoop_suffix hc streamed a b hS hb _ M [] 0 rfl StartAt.zero
    (by have := hc.len; omega)

end

/-- search step, linear flavour: no ordering hypothesis needed -/
theorem searchStep_streamed {ls : List LineInfo} {M : List Sysl} {s0 : Nat} (hc : Ctx ls M s0)
    (a : Option Int) (M1 M2 : List Sysl) (F : Nat) (hM : M = M1 ++ M2) (hF : StartAt s0 M1 F) :
    searchStep ls true F a = firstGE a M2 := by
  simp only [searchStep, if_true]
  apply lsearch_suffix hc a M2 M1 F _ hM hF
  have := hc.len
  have : M2.length ≤ M.length := by rw [hM]; simp
  omega

theorem streamAll_unfiltered_ctx {ls : List LineInfo} {M : List Sysl} {s0 : Nat}
    (hc : Ctx ls M s0) (streamed : Bool) : streamAll ls streamed none none = M := by
  have h := streamAll_of_ctx hc streamed none none
    (by
      intro M1 M2 F hM hF
      cases streamed with
      | true => exact searchStep_streamed hc none M1 M2 F hM hF
      | false => simp only [searchStep]; exact bsearch_suffix_none hc hM hF)
    (by intro X m Y _ h; exact absurd (leB_none _) h)
  rw [h, List.filter_eq_self]
  intro m _
  exact (inWindow_iff none none m).2 ⟨geA_none _, leB_none _⟩

theorem streamAll_window_ctx {ls : List LineInfo} {M : List Sysl} {s0 : Nat}
    (hc : Ctx ls M s0) (hs : SortedM M) (h2 : TwoBytesM M) (streamed : Bool) (a b : Option Int) :
    streamAll ls streamed a b = M.filter (inWindow a b) := by
  apply streamAll_of_ctx hc streamed a b
  · intro M1 M2 F hM hF
    cases streamed with
    | true => exact searchStep_streamed hc a M1 M2 F hM hF
    | false => simp only [searchStep]; exact bsearch_suffix hc hs h2 a hM hF
  · intro X m Y hM hle y hy hle'
    rw [hM] at hs
    have h1 := (List.pairwise_append.1 hs).2.1
    have h3 := (List.pairwise_cons.1 h1).1 y hy
    cases b with
    | none => exact hle (leB_none _)
    | some B => simp at hle hle'; omega

end S4V.Lemmas.Syslines
