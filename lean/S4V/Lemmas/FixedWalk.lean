/-
Lemmas for `S4V.Model.FixedWalk`, over an abstract reader invariant `I`:

* `ReadsExact d I span`: from every reader state satisfying `I`, `read_data_to_buffer(beg, end, false, buffer)` with
  `end - beg ≤ span` answers with
  the bytes `d[beg, min end |d|)` (Done when empty, Err when the buffer is too short) and re-establishes `I`;
  `dropBlock` keeps `I`.
  (`S4V.Lemmas.FixedWalkRead` proves `ReadsExact` for the plain reader and the streamed reader that keeps its blocks.)
* the preprocess loop is a fold of `preBody` over the record offsets (`preLoop_eq`), whose map is `SortDrain.build` of
  the kept records (`preFold_map`);
* one `process_entry_at` step on a well-formed state (`pe_step`), the whole walk (`walkLoop_spec`).
-/
import S4V.Model.FixedWalk
import S4V.Lemmas.SortDrain

namespace S4V.Lemmas.FixedWalk
open S4V.Gen.Blocks S4V.Gen.Stream S4V.Gen.Keys S4V.Gen.FixedWalk S4V.Model.Lines S4V.Model.Stream
  S4V.Model.SortDrain S4V.Model.FixedWalk S4V.Lemmas.SortDrain

/-- bytes `[a, b)` of `d` -/
def sl (d : Bytes) (a b : Nat) : Bytes := (d.drop a).take (b - a)

theorem sl_length (d : Bytes) (a b : Nat) (h : b ≤ d.length) : (sl d a b).length = b - a := by
  unfold sl
  rw [List.length_take, List.length_drop]
  omega

theorem sl_append (d : Bytes) {a b c : Nat} (h1 : a ≤ b) (h2 : b ≤ c) : sl d a b ++ sl d b c = sl d a c := by
  unfold sl
  have e : c - a = (b - a) + (c - b) := by omega
  rw [e, List.take_add, List.drop_drop]
  congr 3
  omega

/-- the reader answers exactly, whatever was asked before, and dropping blocks does not disturb it -/
structure ReadsExact (d : Bytes) (I : Rd → Prop) (span : Nat) : Prop where
  fsz : ∀ r, I r → r.fsz = d.length
  /-- for requests of at most `span` bytes -/
  read : ∀ r beg e len, I r → 1 ≤ len → e ≤ beg + span →
    ∃ r', I r' ∧ r'.bs = r.bs ∧ readDataToBuffer r beg e false len =
      (if beg ≥ min e d.length then R3.done
       else if len < min e d.length - beg then R3.err
       else R3.found (sl d beg (min e d.length)), r')
  drop : ∀ r k, I r → I (dropBlock r k) ∧ (dropBlock r k).bs = r.bs

/-! ### `preprocess_timevalues` -/

/-- the time value `preprocess_timevalues` computes for the record at `fo` -/
def tvAt (p : P) (d : Bytes) (fo : Nat) : Option (Int × Int) :=
  p.tvOf (sl d (fo + p.tvOff) (fo + p.tvOff + p.tvSz))

/-- the loop as a fold over the record offsets -/
def preFold (c : Cfg) (p : P) (a b : Option (Int × Int)) (d : Bytes) :
    List Nat → Option (Int × Int) × Cnt × Map → Option (Int × Int) × Cnt × Map
  | [], s => s
  | fo :: rest, s => preFold c p a b d rest (preBody c a b (tvAt p d fo) fo s.1 s.2.1 s.2.2)

/-- offsets `fo, fo + sz, …` (`n` of them) -/
def offs (sz : Nat) : Nat → Nat → List Nat
  | 0, _ => []
  | n + 1, fo => fo :: offs sz n (fo + sz)

theorem offs_mem {sz : Nat} : ∀ {n fo x : Nat}, x ∈ offs sz n fo → ∃ i, i < n ∧ x = fo + i * sz := by
  intro n
  induction n with
  | zero => intro fo x h; cases h
  | succ n ih =>
    intro fo x h
    rcases List.mem_cons.1 h with h | h
    · exact ⟨0, by omega, by omega⟩
    · obtain ⟨i, hi, e⟩ := ih h
      exact ⟨i + 1, by omega, by rw [e, Nat.add_mul]; omega⟩

theorem preLoop_eq {d : Bytes} {I : Rd → Prop} {span : Nat} (hI : ReadsExact d I span) (p : P) (a b : Option (Int × Int))
    (hsz : 1 ≤ p.sz) (htv : 1 ≤ p.tvSz) (hin : p.tvOff + p.tvSz ≤ p.sz) (hsp : p.tvSz ≤ span) :
    ∀ (n fuel : Nat) (r : Rd) (fo : Nat) (buf : Bytes) (s : Option (Int × Int) × Cnt × Map),
      I r → n + 1 ≤ fuel → fo + n * p.sz = d.length → buf.length = p.tvSz →
      ∃ r', I r' ∧ r'.bs = r.bs ∧ preLoop cfg0 p a b fuel r fo buf s.1 s.2.1 s.2.2 =
        (.found ((preFold cfg0 p a b d (offs p.sz n fo) s).2.1, (preFold cfg0 p a b d (offs p.sz n fo) s).2.2), r') := by
  intro n
  induction n with
  | zero =>
    intro fuel r fo buf s hr hf hfo _
    obtain ⟨fuel, rfl⟩ : ∃ f, fuel = f + 1 := ⟨fuel - 1, by omega⟩
    obtain ⟨r', h1, h2, h3⟩ := hI.read r (tvBeg fo p.tvOff) (tvEnd (tvBeg fo p.tvOff) p.tvSz) p.tvSz hr htv
      (by simp only [tvBeg, tvEnd]; omega)
    refine ⟨r', h1, h2, ?_⟩
    simp only [preLoop, cfg0, PRE_ONEBLOCK]
    rw [h3, if_pos (by simp only [tvBeg, tvEnd]; omega)]
    rfl
  | succ n ih =>
    intro fuel r fo buf s hr hf hfo hbuf
    obtain ⟨fuel, rfl⟩ : ∃ f, fuel = f + 1 := ⟨fuel - 1, by omega⟩
    obtain ⟨r', h1, h2, h3⟩ := hI.read r (tvBeg fo p.tvOff) (tvEnd (tvBeg fo p.tvOff) p.tvSz) p.tvSz hr htv
      (by simp only [tvBeg, tvEnd]; omega)
    have hle : fo + p.sz ≤ d.length := by
      rw [← hfo, Nat.add_mul]; omega
    have hmin : min (tvEnd (tvBeg fo p.tvOff) p.tvSz) d.length = fo + p.tvOff + p.tvSz := by
      simp only [tvBeg, tvEnd]; omega
    have hw : (sl d (fo + p.tvOff) (fo + p.tvOff + p.tvSz)).length = p.tvSz := by
      rw [sl_length _ _ _ (by omega)]; omega
    obtain ⟨r'', g1, g2, g3⟩ := ih fuel r' (fo + p.sz)
      (sl d (fo + p.tvOff) (fo + p.tvOff + p.tvSz))
      (preBody cfg0 a b (tvAt p d fo) fo s.1 s.2.1 s.2.2) h1 (by omega)
      (by rw [← hfo, Nat.add_mul]; omega) hw
    refine ⟨r'', g1, by rw [g2, h2], ?_⟩
    simp only [preLoop, cfg0, PRE_ONEBLOCK] at g3 ⊢
    rw [h3, hmin, if_neg (by simp only [tvBeg]; omega), if_neg (by simp only [tvBeg]; omega)]
    simp only [tvBeg]
    have hdrop : List.drop (sl d (fo + p.tvOff) (fo + p.tvOff + p.tvSz)).length buf = [] := by
      rw [hw, ← hbuf]; exact List.drop_length
    rw [hdrop, List.append_nil]
    simp only [offs, preFold]
    exact g3

/-- the records of the file as the sort model sees them: time value and offset (`idx` = file offset) -/
def recsAt (p : P) (d : Bytes) : List Nat → List Rec
  | [] => []
  | fo :: rest =>
    match tvAt p d fo with
    | some tv => ⟨tv, fo⟩ :: recsAt p d rest
    | none => recsAt p d rest

theorem keep_iff_body (a b : Option (Int × Int)) (tv : Int × Int) (fo : Nat) :
    fixedKeep a b ⟨tv, fo⟩ = (!fixedIsNull tv && !optSkip fixedSkipAfter tv a && !optSkip fixedSkipBefore tv b) := by
  cases a <;> cases b <;> simp [fixedKeep, optSkip]

/-- the map after the loop: every kept record inserted, in file order -/
theorem preFold_map (p : P) (a b : Option (Int × Int)) (d : Bytes) :
    ∀ (os : List Nat) (s : Option (Int × Int) × Cnt × Map),
      (preFold cfg0 p a b d os s).2.2 =
        (((recsAt p d os).filter (fixedKeep a b)).map fun r => (fixedKey r, r.idx)).foldl
          (fun m x => S4V.Model.SortDrain.insert m x.1 x.2) s.2.2 := by
  intro os
  induction os with
  | nil => intro s; rfl
  | cons fo rest ih =>
    intro s
    simp only [preFold, recsAt]
    rw [ih]
    cases htv : tvAt p d fo with
    | none => simp [preBody]
    | some tv =>
      simp only [preBody, cfg0]
      by_cases hn : fixedIsNull tv = true
      · simp [hn, List.filter, keep_iff_body]
      · by_cases ha : optSkip fixedSkipAfter tv a = true
        · simp [hn, ha, List.filter, keep_iff_body]
        · by_cases hb : optSkip fixedSkipBefore tv b = true
          · simp [hn, ha, hb, List.filter, keep_iff_body]
          · simp [hn, ha, hb, List.filter, keep_iff_body]

/-! counters, as specification folds over the time values -/

/-- records with a time value other than (0,0) (`total_entries`) -/
def nonNull (rs : List Rec) : List Rec := rs.filter (fun r => !fixedIsNull r.tv)

/-- number of records whose time is earlier than the previous non-null record's (`out_of_order`) -/
def descents : Option (Int × Int) → List Rec → Nat
  | _, [] => 0
  | prev, r :: rest =>
    (match prev with | some pv => if fixedOutOfOrder r.tv pv then 1 else 0 | none => 0) + descents (some r.tv) rest

def noneCount (p : P) (d : Bytes) (os : List Nat) : Nat := (os.filter (fun fo => (tvAt p d fo).isNone)).length

theorem preBody_cnt_some (a b : Option (Int × Int)) (tv : Int × Int) (fo : Nat) (prev : Option (Int × Int)) (k : Cnt)
    (m : Map) (hn : fixedIsNull tv = false) :
    let s := preBody cfg0 a b (some tv) fo prev k m
    s.1 = some tv ∧ s.2.1.total = k.total + 1 ∧ s.2.1.invalid = k.invalid
    ∧ s.2.1.noPass = k.noPass + (if fixedKeep a b ⟨tv, fo⟩ then 0 else 1)
    ∧ s.2.1.ooo = k.ooo + (match prev with | some pv => if fixedOutOfOrder tv pv then 1 else 0 | none => 0) := by
  have hk : fixedKeep a b ⟨tv, fo⟩ = (!optSkip fixedSkipAfter tv a && !optSkip fixedSkipBefore tv b) := by
    rw [keep_iff_body]; simp [hn]
  obtain ⟨t, i, n, o⟩ := k
  simp only [preBody, cfg0, hn, Bool.false_eq_true, if_false, hk]
  cases prev with
  | none =>
    by_cases ha : optSkip fixedSkipAfter tv a = true
    · simp [ha]
    · by_cases hb : optSkip fixedSkipBefore tv b = true <;> simp [ha, hb]
  | some pv =>
    by_cases ho : fixedOutOfOrder tv pv = true
    · by_cases ha : optSkip fixedSkipAfter tv a = true
      · simp [ha, ho]
      · by_cases hb : optSkip fixedSkipBefore tv b = true <;> simp [ha, hb, ho]
    · by_cases ha : optSkip fixedSkipAfter tv a = true
      · simp [ha, ho]
      · by_cases hb : optSkip fixedSkipBefore tv b = true <;> simp [ha, hb, ho]

theorem preFold_cnt (p : P) (a b : Option (Int × Int)) (d : Bytes) :
    ∀ (os : List Nat) (s : Option (Int × Int) × Cnt × Map),
      let k := (preFold cfg0 p a b d os s).2.1
      let nn := nonNull (recsAt p d os)
      k.total = s.2.1.total + nn.length
      ∧ k.invalid = s.2.1.invalid + noneCount p d os
      ∧ k.noPass = s.2.1.noPass + (nn.filter (fun r => !fixedKeep a b r)).length
      ∧ k.ooo = s.2.1.ooo + descents s.1 nn := by
  intro os
  induction os with
  | nil => intro s; simp [preFold, recsAt, nonNull, noneCount, descents]
  | cons fo rest ih =>
    intro s
    obtain ⟨prev, k, m⟩ := s
    simp only [preFold]
    have := ih (preBody cfg0 a b (tvAt p d fo) fo prev k m)
    simp only at this ⊢
    obtain ⟨t1, t2, t3, t4⟩ := this
    cases htv : tvAt p d fo with
    | none =>
      rw [htv] at t1 t2 t3 t4
      have hb : preBody cfg0 a b none fo prev k m = (prev, { k with invalid := k.invalid + 1 }, m) := rfl
      rw [hb] at t1 t2 t3 t4 ⊢
      have hnc : noneCount p d (fo :: rest) = noneCount p d rest + 1 := by
        simp [noneCount, List.filter, htv]
      have hnn : nonNull (recsAt p d (fo :: rest)) = nonNull (recsAt p d rest) := by
        simp [recsAt, htv]
      rw [hnn, hnc]
      simp only at t1 t2 t3 t4 ⊢
      refine ⟨t1, by rw [t2]; omega, t3, t4⟩
    | some tv =>
      rw [htv] at t1 t2 t3 t4
      have hnc : noneCount p d (fo :: rest) = noneCount p d rest := by
        simp [noneCount, List.filter, htv]
      by_cases hn : fixedIsNull tv = true
      · have hb : preBody cfg0 a b (some tv) fo prev k m = (prev, k, m) := by simp [preBody, cfg0, hn]
        rw [hb] at t1 t2 t3 t4 ⊢
        have hnn : nonNull (recsAt p d (fo :: rest)) = nonNull (recsAt p d rest) := by
          simp [recsAt, htv, nonNull, List.filter, hn]
        rw [hnn, hnc]
        exact ⟨t1, t2, t3, t4⟩
      · have hn' : fixedIsNull tv = false := by simpa using hn
        obtain ⟨b1, b2, b3, b4, b5⟩ := preBody_cnt_some a b tv fo prev k m hn'
        rw [b1] at t4
        rw [b2] at t1
        rw [b3] at t2
        rw [b4] at t3
        rw [b5] at t4
        have hnn : nonNull (recsAt p d (fo :: rest)) = ⟨tv, fo⟩ :: nonNull (recsAt p d rest) := by
          simp [recsAt, htv, nonNull, List.filter, hn']
        rw [hnn, hnc]
        refine ⟨by rw [t1, List.length_cons]; omega, t2, ?_, ?_⟩
        · rw [t3, List.filter_cons]
          by_cases hk : fixedKeep a b ⟨tv, fo⟩ = true
          · simp [hk]
          · simp [hk]; omega
        · rw [t4]
          simp only [descents]
          omega

/-! ### the walk -/

/-- the record at `fo` -/
def recAt (d : Bytes) (fo sz : Nat) : Bytes := sl d fo (fo + sz)

/-- what the worker sends for the map entry `e` -/
def emitOf (p : P) (d : Bytes) (e : Key × Nat) : Emit :=
  if p.newOk (recAt d e.2 p.sz) then .msg e.2 (recAt d e.2 p.sz) (isLastRec e.2 p.sz d.length) else .bad

/-- well-formed map: strictly sorted keys, offsets are record offsets inside the file, pairwise different -/
structure MapOk (sz L : Nat) (m : Map) : Prop where
  sorted : KSorted m
  off : ∀ e ∈ m, e.2 % sz = 0 ∧ e.2 + sz ≤ L
  nodup : (m.map (·.2)).Nodup

theorem MapOk.tail {sz L : Nat} {e : Key × Nat} {m : Map} (h : MapOk sz L (e :: m)) : MapOk sz L m :=
  ⟨(List.pairwise_cons.1 h.sorted).2, fun x hx => h.off x (List.mem_cons_of_mem _ hx),
   by have := h.nodup; rw [List.map_cons, List.nodup_cons] at this; exact this.2⟩

/-- every cached record is the record of the file at its offset -/
def CacheOk (p : P) (d : Bytes) (c : List (Nat × Bytes)) : Prop :=
  ∀ e ∈ c, e.2 = recAt d e.1 p.sz ∧ p.newOk e.2 = true

theorem scan_head (fsz : Nat) (k0 : Key) (fo0 : Nat) (rest : Map) :
    scan cfg0 fo0 ((k0, fo0) :: rest) false fsz none
      = ((match rest with | [] => fsz | e :: _ => e.2), some k0) := by
  cases rest with
  | nil => simp [scan, cfg0, WALK_NEXT_CHECK_FIRST]
  | cons e rest => obtain ⟨k1, fo1⟩ := e; simp [scan, cfg0, WALK_NEXT_CHECK_FIRST]

theorem filter_head_key {k0 : Key} {fo0 : Nat} {rest : Map} (h : KSorted ((k0, fo0) :: rest)) :
    ((k0, fo0) :: rest).filter (fun e => e.1 != k0) = rest := by
  have h1 := (List.pairwise_cons.1 h).1
  rw [List.filter_cons]
  simp only [bne_self_eq_false, Bool.false_eq_true, if_false]
  apply List.filter_eq_self.2
  intro e he
  have := h1 e he
  simp only [bne_iff_ne, ne_eq]
  intro heq
  rw [heq, klt_irrefl] at this
  cases this

theorem dropLoop_inv {d : Bytes} {I : Rd → Prop} {span : Nat} (hI : ReadsExact d I span) :
    ∀ (n : Nat) (rd : Rd) (u : UMap) (bo ok er : Nat), I rd →
      I (dropLoop n rd u bo ok er).1 ∧ (dropLoop n rd u bo ok er).1.bs = rd.bs := by
  intro n
  induction n with
  | zero => intro rd u bo ok er h; exact ⟨h, rfl⟩
  | succ n ih =>
    intro rd u bo ok er h
    simp only [dropLoop]
    cases uget u bo with
    | none => exact ih rd u (bo + 1) ok er h
    | some cnt =>
      simp only
      split
      · split
        · obtain ⟨g1, g2⟩ := hI.drop rd bo h
          obtain ⟨f1, f2⟩ := ih (dropBlock rd bo) (udel u bo) (bo + 1) (ok + 1) er g1
          exact ⟨f1, by rw [f2, g2]⟩
        · exact ih rd u (bo + 1) ok (er + 1) h
      · exact ih rd (uset u bo (cnt - 1)) (bo + 1) ok er h

theorem dropEntry_inv {d : Bytes} {I : Rd → Prop} {span : Nat} (hI : ReadsExact d I span) (p : P) (fr : FR) (fo : Nat)
    (h : I fr.rd) :
    I (dropEntry p fr fo).rd ∧ (dropEntry p fr fo).map = fr.map ∧ (dropEntry p fr fo).cache = fr.cache
      ∧ (dropEntry p fr fo).rd.bs = fr.rd.bs := by
  unfold dropEntry
  obtain ⟨h1, h2⟩ := dropLoop_inv hI (spanBlocks DROP_LOOP_INCLUSIVE fr.rd.bs fo p.sz) fr.rd fr.use
    (blockOffsetAtFileOffset fo fr.rd.bs) 0 0 h
  exact ⟨h1, rfl, rfl, h2⟩

theorem cacheGet_ok {d : Bytes} {p : P} {c : List (Nat × Bytes)} (h : CacheOk p d c) {fo : Nat} {b : Bytes}
    (hg : cacheGet c fo = some b) : b = recAt d fo p.sz ∧ p.newOk b = true := by
  unfold cacheGet at hg
  cases hf : c.find? (fun p => p.1 == fo) with
  | none => rw [hf] at hg; cases hg
  | some e =>
    rw [hf] at hg
    simp only [Option.map_some, Option.some.injEq] at hg
    have hm := List.mem_of_find?_eq_some hf
    have hp := List.find?_some hf
    simp only [beq_iff_eq] at hp
    have := h e hm
    rw [hp] at this
    rw [← hg]
    exact this

theorem CacheOk.filter {d : Bytes} {p : P} {c : List (Nat × Bytes)} (h : CacheOk p d c) (f : Nat × Bytes → Bool) :
    CacheOk p d (c.filter f) := fun e he => h e (List.mem_filter.1 he).1

/-- one `process_entry_at` at the head of a well-formed map: the record of the file at that offset is handed out
(cache hit or fresh read — the same bytes), the key leaves the map, the offset returned is the next key's -/
theorem pe_step {d : Bytes} {I : Rd → Prop} {span : Nat} (hI : ReadsExact d I span) (p : P) (hsz : 1 ≤ p.sz)
    (hsp : p.sz ≤ span) (buflen : Nat)
    (hbuf : p.sz ≤ buflen) (fr : FR) (k0 : Key) (fo0 : Nat) (rest : Map)
    (hr : I fr.rd) (hm : fr.map = (k0, fo0) :: rest) (hok : MapOk p.sz d.length fr.map)
    (hc : CacheOk p d fr.cache) :
    ∃ fr' cached, I fr'.rd ∧ fr'.map = rest ∧ CacheOk p d fr'.cache ∧ fr'.rd.bs = fr.rd.bs ∧
      processEntryAt cfg0 p fr fo0 buflen =
        ((if p.newOk (recAt d fo0 p.sz)
          then PE.found (match rest with | [] => d.length | e :: _ => e.2) fo0 (recAt d fo0 p.sz) cached
          else PE.err (some (match rest with | [] => d.length | e :: _ => e.2))), fr') := by
  have hfsz := hI.fsz fr.rd hr
  rw [hm] at hok
  obtain ⟨hmod, hle⟩ := hok.off (k0, fo0) (List.mem_cons_self ..)
  simp only at hmod hle
  have hfloor : peFloor fo0 p.sz = fo0 := by unfold peFloor; omega
  have hlt : ¬ fo0 ≥ d.length := by omega
  unfold processEntryAt
  simp only [hfloor, PE_DONE_GE, if_true, hfsz, decide_eq_true_eq, hlt, if_false, hm]
  rw [scan_head]
  simp only [cfg0, WALK_REMOVES_KEY, if_true, CACHE_HIT_REMOVES, CACHE_HIT_DROPS, FRESH_READ_DROPS, NEW_ERR_CONTINUES,
    REC_ONEBLOCK, recBeg, recEnd]
  rw [filter_head_key hok.sorted]
  cases hcg : cacheGet fr.cache fo0 with
  | some rcd =>
    obtain ⟨hrcd, hnew⟩ := cacheGet_ok hc hcg
    simp only
    subst hrcd
    simp only [hnew, ↓reduceIte]
    let fr2 : FR := { fr with map := rest, hits := fr.hits + 1, cache := fr.cache.filter (fun e => e.1 != fo0) }
    obtain ⟨g1, g2, g3, g4⟩ := dropEntry_inv hI p fr2 fo0 hr
    exact ⟨dropEntry p fr2 fo0, true, g1, g2, by rw [g3]; exact hc.filter _, g4, rfl⟩
  | none =>
    simp only
    rw [if_neg (by omega)]
    obtain ⟨r', h1, h2, h3⟩ := hI.read fr.rd fo0 (fo0 + p.sz) p.sz hr hsz (by omega)
    rw [h3]
    have hmin : min (fo0 + p.sz) d.length = fo0 + p.sz := by omega
    rw [hmin, if_neg (by omega), if_neg (by omega)]
    simp only
    have hlen : (sl d fo0 (fo0 + p.sz)).length = p.sz := by rw [sl_length _ _ _ hle]; omega
    rw [hlen, Nat.sub_self, List.replicate_zero, List.append_nil]
    change ∃ fr' cached, _ ∧ _ ∧ _ ∧ _ ∧ (if p.newOk (recAt d fo0 p.sz) = true then _ else _) = _
    by_cases hnew : p.newOk (recAt d fo0 p.sz) = true
    · simp only [hnew, ↓reduceIte]
      let fr4 : FR := { fr with map := rest, miss := fr.miss + 1, rd := r', processed := fr.processed + 1 }
      obtain ⟨g1, g2, g3, g4⟩ := dropEntry_inv hI p fr4 fo0 h1
      exact ⟨dropEntry p fr4 fo0, false, g1, g2, by rw [g3]; exact hc, by rw [g4]; exact h2, rfl⟩
    · have hnew' : p.newOk (recAt d fo0 p.sz) = false := by simpa using hnew
      simp only [hnew', Bool.false_eq_true, ↓reduceIte]
      exact ⟨{ fr with map := rest, miss := fr.miss + 1, rd := r' }, false, h1, rfl, hc, h2, rfl⟩

theorem pe_done {d : Bytes} {I : Rd → Prop} {span : Nat} (hI : ReadsExact d I span) (p : P) (hdiv : d.length % p.sz = 0)
    (buflen : Nat) (fr : FR) (hr : I fr.rd) : processEntryAt cfg0 p fr d.length buflen = (.done, fr) := by
  have hfloor : peFloor d.length p.sz = d.length := by unfold peFloor; omega
  unfold processEntryAt
  simp only [hfloor, PE_DONE_GE, if_true, hI.fsz fr.rd hr, ge_iff_le, Nat.le_refl, decide_true]

/-- the worker loop from the head of a well-formed map: one entry per key, in map order, then `Done` -/
theorem walkLoop_spec {d : Bytes} {I : Rd → Prop} {span : Nat} (hI : ReadsExact d I span) (p : P) (hsz : 1 ≤ p.sz)
    (hsp : p.sz ≤ span) (hdiv : d.length % p.sz = 0) (buflen : Nat) (hbuf : p.sz ≤ buflen) :
    ∀ (rest : Map) (fuel : Nat) (fr : FR) (k0 : Key) (fo0 : Nat) (acc : List Emit),
      I fr.rd → fr.map = (k0, fo0) :: rest → MapOk p.sz d.length fr.map → CacheOk p d fr.cache →
      rest.length + 2 ≤ fuel →
      ∃ fr', I fr'.rd ∧ fr'.map = [] ∧ fr'.rd.bs = fr.rd.bs ∧
        walkLoop cfg0 p buflen fuel fr fo0 acc = (acc ++ ((k0, fo0) :: rest).map (emitOf p d), .done, fr') := by
  intro rest
  induction rest with
  | nil =>
    intro fuel fr k0 fo0 acc hr hm hok hc hf
    obtain ⟨fuel, rfl⟩ : ∃ f, fuel = f + 2 := ⟨fuel - 2, by simp at hf; omega⟩
    obtain ⟨fr', cached, g1, g2, _, g4, g5⟩ := pe_step hI p hsz hsp buflen hbuf fr k0 fo0 [] hr hm hok hc
    refine ⟨fr', g1, g2, g4, ?_⟩
    simp only [walkLoop, g5, List.map_cons, List.map_nil, emitOf, hI.fsz fr.rd hr]
    by_cases hnew : p.newOk (recAt d fo0 p.sz) = true
    · simp only [hnew, ↓reduceIte, pe_done hI p hdiv buflen fr' g1]
    · have hnew' : p.newOk (recAt d fo0 p.sz) = false := by simpa using hnew
      simp only [hnew', Bool.false_eq_true, ↓reduceIte, pe_done hI p hdiv buflen fr' g1]
  | cons e rest ih =>
    intro fuel fr k0 fo0 acc hr hm hok hc hf
    obtain ⟨fuel, rfl⟩ : ∃ f, fuel = f + 1 := ⟨fuel - 1, by simp at hf; omega⟩
    obtain ⟨fr', cached, g1, g2, g3, g4, g5⟩ := pe_step hI p hsz hsp buflen hbuf fr k0 fo0 (e :: rest) hr hm hok hc
    have hok' : MapOk p.sz d.length fr'.map := by rw [g2]; rw [hm] at hok; exact hok.tail
    obtain ⟨k1, fo1⟩ := e
    simp only [walkLoop, g5, List.map_cons, emitOf, hI.fsz fr.rd hr]
    by_cases hnew : p.newOk (recAt d fo0 p.sz) = true
    · simp only [hnew, ↓reduceIte]
      obtain ⟨fr'', f1, f2, f3, f4⟩ := ih fuel fr' k1 fo1
        (acc ++ [Emit.msg fo0 (recAt d fo0 p.sz) (isLastRec fo0 p.sz d.length)]) g1 g2 hok' g3
        (by simp at hf ⊢; omega)
      refine ⟨fr'', f1, f2, by rw [f3, g4], ?_⟩
      rw [f4]
      simp [emitOf, List.append_assoc]
    · have hnew' : p.newOk (recAt d fo0 p.sz) = false := by simpa using hnew
      simp only [hnew', Bool.false_eq_true, ↓reduceIte]
      obtain ⟨fr'', f1, f2, f3, f4⟩ := ih fuel fr' k1 fo1 (acc ++ [Emit.bad]) g1 g2 hok' g3
        (by simp at hf ⊢; omega)
      refine ⟨fr'', f1, f2, by rw [f3, g4], ?_⟩
      rw [f4]
      simp [emitOf, List.append_assoc]

/-- `fileoffset_first()` of a sorted map is the offset of its least key -/
theorem foFirst_head {k0 : Key} {fo0 : Nat} {rest : Map} (h : KSorted ((k0, fo0) :: rest)) :
    foFirst ((k0, fo0) :: rest) = some fo0 := by
  have h1 := (List.pairwise_cons.1 h).1
  unfold foFirst
  suffices hs : ∀ (l : Map), (∀ e ∈ l, klt k0 e.1 = true) →
      l.foldl (fun best y => if kvLt y best then y else best) (k0, fo0) = (k0, fo0) by
    simp only [hs rest h1]
  intro l
  induction l with
  | nil => intro _; rfl
  | cons y l ih =>
    intro hl
    have hy := hl y (List.mem_cons_self ..)
    have h2 : kvLt y (k0, fo0) = false := by
      unfold kvLt
      have := klt_asymm hy
      simp only [this, Bool.false_or, Bool.and_eq_false_imp, beq_iff_eq]
      intro heq
      rw [heq, klt_irrefl] at hy
      cases hy
    simp only [List.foldl_cons, h2, Bool.false_eq_true, if_false]
    exact ih (fun e he => hl e (List.mem_cons_of_mem _ he))

end S4V.Lemmas.FixedWalk
