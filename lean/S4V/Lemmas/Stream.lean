/-
Lemmas about `S4V.Model.Stream`: the chunked decoder, the fill loops, the maps,
and the per-container invariants used by `S4V.Props.StreamSpec`.
Core Lean only.
-/
import S4V.Model.Stream
import S4V.Lemmas.Blocks

namespace S4V.Lemmas.Stream
open S4V.Gen.Blocks S4V.Gen.Stream S4V.Model.Lines S4V.Model.Stream S4V.Lemmas.Blocks

/-! ### decoder -/

/-- number of bytes a `read(buf[..k])` delivers when enough data is left -/
def Dec.n (s : Dec) (k : Nat) : Nat :=
  min (match s.cs with | [] => k | c :: _ => max 1 c) k

theorem read_fst (s : Dec) (k : Nat) : (s.read k).1 = s.rest.take (Dec.n s k) := rfl
theorem read_snd_rest (s : Dec) (k : Nat) : (s.read k).2.rest = s.rest.drop (Dec.n s k) := rfl
theorem read_snd_cs (s : Dec) (k : Nat) : (s.read k).2.cs = s.cs.tail := rfl

theorem n_le (s : Dec) (k : Nat) : Dec.n s k ≤ k := Nat.min_le_right _ _

theorem n_pos (s : Dec) (k : Nat) (hk : 1 ≤ k) : 1 ≤ Dec.n s k := by
  unfold Dec.n
  cases s.cs with
  | nil => simp; omega
  | cons c _ => simp; omega

/-- a read never invents or loses bytes -/
theorem read_append (s : Dec) (k : Nat) : (s.read k).1 ++ (s.read k).2.rest = s.rest := by
  rw [read_fst, read_snd_rest, List.take_append_drop]

/-- `read` returns 0 bytes only for an empty buffer or at end of data -/
theorem read_len_pos (s : Dec) (k : Nat) (hk : 1 ≤ k) (hr : s.rest ≠ []) : 1 ≤ (s.read k).1.length := by
  rw [read_fst, List.length_take]
  have := n_pos s k hk
  have : 1 ≤ s.rest.length := List.length_pos_iff.mpr hr
  omega

theorem read_len_le (s : Dec) (k : Nat) : (s.read k).1.length ≤ k := by
  rw [read_fst, List.length_take]
  have := n_le s k
  omega

/-! ### fill loop -/

theorem readsz_le (cap : Option Nat) (need : Nat) : readsz cap need ≤ need := by
  unfold readsz
  cases cap with
  | none => exact Nat.le_refl _
  | some c => simp only; split <;> omega

theorem readsz_pos (cap : Option Nat) (need : Nat) (hcap : ∀ c, cap = some c → 1 ≤ c) (hn : 1 ≤ need) :
    1 ≤ readsz cap need := by
  unfold readsz
  cases cap with
  | none => exact hn
  | some c =>
    have := hcap c rfl
    simp only; split <;> omega

/-- the fill loop delivers exactly the next `need` bytes, whatever the chunking -/
theorem fill_spec (cap : Option Nat) (hcap : ∀ c, cap = some c → 1 ≤ c) :
    ∀ (fuel : Nat) (s : Dec) (need : Nat) (acc : Bytes), need ≤ fuel → need ≤ s.rest.length →
      ∃ s', fill cap fuel s need acc = some (acc ++ s.rest.take need, s') ∧ s'.rest = s.rest.drop need := by
  intro fuel
  induction fuel with
  | zero =>
    intro s need acc hf _
    have : need = 0 := by omega
    subst this
    exact ⟨s, by simp [fill], by simp⟩
  | succ fuel ih =>
    intro s need acc hf hl
    by_cases h0 : need = 0
    · subst h0
      exact ⟨s, by simp [fill], by simp⟩
    · have hrs := readsz_pos cap need hcap (by omega)
      have hrl := readsz_le cap need
      have hn1 := n_pos s (readsz cap need) hrs
      have hn2 := n_le s (readsz cap need)
      have hlen : (s.read (readsz cap need)).1.length = Dec.n s (readsz cap need) := by
        rw [read_fst, List.length_take]; omega
      obtain ⟨s', h1, h2⟩ := ih (s.read (readsz cap need)).2 (need - Dec.n s (readsz cap need))
        (acc ++ (s.read (readsz cap need)).1) (by omega)
        (by rw [read_snd_rest, List.length_drop]; omega)
      refine ⟨s', ?_, ?_⟩
      · rw [fill, if_neg h0]
        simp only [hlen]
        rw [if_neg (by omega), h1, read_fst, read_snd_rest, List.append_assoc]
        congr 2
        have : need = Dec.n s (readsz cap need) + (need - Dec.n s (readsz cap need)) := by omega
        conv => rhs; rw [this, List.take_add]
      · rw [h2, read_snd_rest, List.drop_drop]
        congr 1
        omega

/-- a decoder that always fills the buffer when data is left (every scripted size ≥ `bs`) -/
def Fills (bs : Nat) (cs : List Nat) : Prop := ∀ c ∈ cs, bs ≤ c

theorem Fills.tail {bs : Nat} {cs : List Nat} (h : Fills bs cs) : Fills bs cs.tail :=
  fun c hc => h c (List.mem_of_mem_tail hc)

theorem n_of_fills (s : Dec) (bs k : Nat) (h : Fills bs s.cs) (hk : k ≤ bs) : Dec.n s k = k := by
  unfold Dec.n
  cases hcs : s.cs with
  | nil => simp
  | cons c _ =>
    have : bs ≤ c := h c (by rw [hcs]; exact List.mem_cons_self)
    simp only
    omega

/-- the single read of `read_block_FileLz4` is right when the decoder fills the buffer -/
theorem readOnce_spec (s : Dec) (bs need : Nat) (h : Fills bs s.cs) (hk : need ≤ bs) (hl : need ≤ s.rest.length) :
    (readOnce s need).1 = s.rest.take need ∧ (readOnce s need).2.rest = s.rest.drop need
      ∧ Fills bs (readOnce s need).2.cs := by
  have hn := n_of_fills s bs need h hk
  refine ⟨?_, ?_, ?_⟩
  · unfold readOnce
    simp only [read_fst, hn]
    rw [List.length_take, Nat.min_eq_left hl, Nat.sub_self]
    simp
  · unfold readOnce
    simp only [read_snd_rest, hn]
  · unfold readOnce
    simp only [read_snd_cs]
    exact h.tail

/-- the fill loop of the repaired `read_block_FileLz4` delivers exactly the next `need` bytes,
whatever the chunking, whenever that many bytes are left -/
theorem fillBreak_spec :
    ∀ (fuel : Nat) (s : Dec) (need : Nat) (acc : Bytes), need ≤ fuel → need ≤ s.rest.length →
      (fillBreak fuel s need acc).1 = acc ++ s.rest.take need
        ∧ (fillBreak fuel s need acc).2.rest = s.rest.drop need := by
  intro fuel
  induction fuel with
  | zero =>
    intro s need acc hf _
    have : need = 0 := by omega
    subst this
    simp [fillBreak]
  | succ fuel ih =>
    intro s need acc hf hl
    by_cases h0 : need = 0
    · subst h0
      simp [fillBreak]
    · have hn1 := n_pos s need (by omega)
      have hn2 := n_le s need
      have hlen : (s.read need).1.length = Dec.n s need := by
        rw [read_fst, List.length_take]; omega
      obtain ⟨h1, h2⟩ := ih (s.read need).2 (need - Dec.n s need) (acc ++ (s.read need).1) (by omega)
        (by rw [read_snd_rest, List.length_drop]; omega)
      rw [fillBreak, if_neg h0]
      simp only [hlen]
      rw [if_neg (by omega)]
      refine ⟨?_, ?_⟩
      · rw [h1, read_fst, read_snd_rest, List.append_assoc]
        congr 1
        have : need = Dec.n s need + (need - Dec.n s need) := by omega
        conv => rhs; rw [this, List.take_add]
      · rw [h2, read_snd_rest, List.drop_drop]
        congr 1
        omega

/-- when the stream ends early the loop stops at the zero-length read (`Ok(0) => break`) and the
block keeps its expected length: what was left, then zero padding -/
theorem fillBreak_short :
    ∀ (fuel : Nat) (s : Dec) (need : Nat) (acc : Bytes), need ≤ fuel → s.rest.length < need →
      (fillBreak fuel s need acc).1 = acc ++ s.rest ++ List.replicate (need - s.rest.length) 0 := by
  intro fuel
  induction fuel with
  | zero => intro s need acc hf hl; omega
  | succ fuel ih =>
    intro s need acc hf hl
    have h0 : need ≠ 0 := by omega
    rw [fillBreak, if_neg h0]
    by_cases hr : s.rest = []
    · have : (s.read need).1.length = 0 := by rw [read_fst, hr]; simp
      simp only [this, if_true, hr, List.append_nil, List.length_nil, Nat.sub_zero]
    · have hp := read_len_pos s need (by omega) hr
      have hle := read_len_le s need
      have hlen : s.rest.length = (s.read need).1.length + (s.read need).2.rest.length := by
        rw [← List.length_append, read_append]
      simp only
      rw [if_neg (by omega), ih _ _ _ (by omega) (by omega), List.append_assoc acc, read_append]
      congr 2
      omega

/-! ### size pre-pass and copy loop -/

theorem countLoop_spec (bufsz : Nat) (hb : 1 ≤ bufsz) :
    ∀ (fuel : Nat) (s : Dec) (acc : Nat), s.rest.length < fuel →
      countLoop bufsz fuel s acc = acc + s.rest.length := by
  intro fuel
  induction fuel with
  | zero => intro s acc h; omega
  | succ fuel ih =>
    intro s acc h
    rw [countLoop]
    by_cases hr : s.rest = []
    · have : (s.read bufsz).1.length = 0 := by rw [read_fst, hr]; simp
      simp only [this, if_true, hr, List.length_nil, Nat.add_zero]
    · have hp := read_len_pos s bufsz hb hr
      rw [if_neg (by omega)]
      have hlen : s.rest.length = (s.read bufsz).1.length + (s.read bufsz).2.rest.length := by
        rw [← List.length_append, read_append]
      rw [ih _ _ (by omega)]
      omega

theorem copyLoopG_spec (bufsz : Nat) (hb : 1 ≤ bufsz) :
    ∀ (fuel : Nat) (s : Dec) (acc : Bytes), s.rest.length < fuel →
      copyLoopG true bufsz fuel s acc = acc ++ s.rest := by
  intro fuel
  induction fuel with
  | zero => intro s acc h; omega
  | succ fuel ih =>
    intro s acc h
    rw [copyLoopG]
    by_cases hr : s.rest = []
    · have : (s.read bufsz).1.length = 0 := by rw [read_fst, hr]; simp
      simp only [this, if_true, hr, List.append_nil]
    · have hp := read_len_pos s bufsz hb hr
      rw [if_neg (by omega)]
      simp only [Bool.not_true, Bool.false_and, Bool.false_eq_true, if_false]
      have hlen : s.rest.length = (s.read bufsz).1.length + (s.read bufsz).2.rest.length := by
        rw [← List.length_append, read_append]
      rw [ih _ _ (by omega), List.append_assoc, read_append]

/-- unfolds the generated `NTF_COPY_STOPS_ONLY_AT_EOF`: with a further exit in the loop this is not provable -/
theorem copyLoop_spec (bufsz : Nat) (hb : 1 ≤ bufsz) :
    ∀ (fuel : Nat) (s : Dec) (acc : Bytes), s.rest.length < fuel →
      copyLoop bufsz fuel s acc = acc ++ s.rest := by
  have h : NTF_COPY_STOPS_ONLY_AT_EOF = true := by decide
  unfold copyLoop
  rw [h]
  exact copyLoopG_spec bufsz hb

/-! ### maps -/

theorem mget_some_mem {m : BMap} {k : Nat} {b : Bytes} (h : mget m k = some b) : (k, b) ∈ m := by
  unfold mget at h
  cases hf : m.find? (fun p => p.1 == k) with
  | none => rw [hf] at h; simp at h
  | some p =>
    rw [hf] at h
    simp only [Option.map_some, Option.some.injEq] at h
    have h1 := List.find?_some hf
    have h2 := List.mem_of_find?_eq_some hf
    simp only [beq_iff_eq] at h1
    have : p = (k, b) := by cases p; simp_all
    rw [← this]; exact h2

theorem mget_cons (m : BMap) (j k : Nat) (b : Bytes) :
    mget ((j, b) :: m) k = if j = k then some b else mget m k := by
  unfold mget
  rw [List.find?_cons]
  by_cases h : j = k
  · simp [h]
  · have : ((j, b).1 == k) = false := by simpa using h
    simp [this, h]

theorem mget_mdel_self (m : BMap) (k : Nat) : mget (mdel m k) k = none := by
  unfold mget mdel
  rw [Option.map_eq_none_iff, List.find?_eq_none]
  intro p hp
  rw [List.mem_filter] at hp
  simpa using hp.2

theorem mget_mdel_ne (m : BMap) (j k : Nat) (h : j ≠ k) : mget (mdel m k) j = mget m j := by
  induction m with
  | nil => rfl
  | cons p m ih =>
    obtain ⟨a, b⟩ := p
    unfold mdel at ih ⊢
    rw [List.filter_cons]
    by_cases hak : a = k
    · subst hak
      simp only [bne_self_eq_false, Bool.false_eq_true, if_false]
      rw [ih, mget_cons, if_neg (by omega)]
    · have : ((a, b).1 != k) = true := by simpa using hak
      simp only [this, if_true]
      rw [mget_cons, mget_cons, ih]

theorem mget_mins_self (m : BMap) (k : Nat) (b : Bytes) : mget (mins m k b) k = some b := by
  unfold mins; rw [mget_cons, if_pos rfl]

theorem mget_mins_ne (m : BMap) (j k : Nat) (b : Bytes) (h : j ≠ k) : mget (mins m k b) j = mget m j := by
  unfold mins; rw [mget_cons, if_neg (by omega), mget_mdel_ne m j k h]

/-- every stored block is the right slice of `d` -/
def Good (d : Bytes) (bs : Nat) (m : BMap) : Prop := ∀ p ∈ m, p.2 = blockAt d bs p.1 ∧ p.2 ≠ []

theorem Good.nil (d : Bytes) (bs : Nat) : Good d bs [] := by intro p hp; cases hp

theorem Good.mdel {d : Bytes} {bs : Nat} {m : BMap} (h : Good d bs m) (k : Nat) : Good d bs (mdel m k) :=
  fun p hp => h p (List.mem_filter.mp hp).1

theorem Good.mins {d : Bytes} {bs : Nat} {m : BMap} (h : Good d bs m) (k : Nat) (b : Bytes)
    (hb : b = blockAt d bs k) (hne : b ≠ []) : Good d bs (mins m k b) := by
  intro p hp
  unfold S4V.Model.Stream.mins at hp
  rcases List.mem_cons.mp hp with rfl | hp
  · exact ⟨hb, hne⟩
  · exact h.mdel k p hp

theorem Good.lruPut {d : Bytes} {bs : Nat} {m : BMap} (h : Good d bs m) (k : Nat) (b : Bytes)
    (hb : b = blockAt d bs k) (hne : b ≠ []) : Good d bs (lruPut m k b) :=
  fun p hp => h.mins k b hb hne p (List.mem_of_mem_take hp)

theorem Good.get {d : Bytes} {bs : Nat} {m : BMap} (h : Good d bs m) {k : Nat} {b : Bytes}
    (hg : mget m k = some b) : b = blockAt d bs k ∧ b ≠ [] := h (k, b) (mget_some_mem hg)

theorem keys_mdel {m : BMap} {n : Nat} (h : ∀ p ∈ m, p.1 < n) (k : Nat) : ∀ p ∈ mdel m k, p.1 < n :=
  fun p hp => h p (List.mem_filter.mp hp).1

theorem keys_mins {m : BMap} {n : Nat} (h : ∀ p ∈ m, p.1 < n) (k : Nat) (b : Bytes) (hk : k < n) :
    ∀ p ∈ mins m k b, p.1 < n := by
  intro p hp
  unfold S4V.Model.Stream.mins at hp
  rcases List.mem_cons.mp hp with rfl | hp
  · exact hk
  · exact keys_mdel h k p hp

theorem keys_lruPut {m : BMap} {n : Nat} (h : ∀ p ∈ m, p.1 < n) (k : Nat) (b : Bytes) (hk : k < n) :
    ∀ p ∈ lruPut m k b, p.1 < n :=
  fun p hp => keys_mins h k b hk p (List.mem_of_mem_take hp)

theorem keys_mono {m : BMap} {n n' : Nat} (h : ∀ p ∈ m, p.1 < n) (hn : n ≤ n') : ∀ p ∈ m, p.1 < n' :=
  fun p hp => Nat.lt_of_lt_of_le (h p hp) hn

/-! ### `maxRead` -/

theorem foldl_max_ge (l : List Nat) (a : Nat) : a ≤ l.foldl max a ∧ ∀ x ∈ l, x ≤ l.foldl max a := by
  induction l generalizing a with
  | nil => simp
  | cons y l ih =>
    rw [List.foldl_cons]
    obtain ⟨h1, h2⟩ := ih (max a y)
    refine ⟨by omega, ?_⟩
    intro x hx
    rcases List.mem_cons.mp hx with rfl | hx
    · omega
    · exact h2 x hx

theorem foldl_max_mem (l : List Nat) (a : Nat) : l.foldl max a = a ∨ l.foldl max a ∈ l := by
  induction l generalizing a with
  | nil => simp
  | cons y l ih =>
    rw [List.foldl_cons]
    rcases ih (max a y) with h | h
    · rw [h]
      by_cases hay : a ≤ y
      · right; rw [Nat.max_eq_right hay]; exact List.mem_cons_self
      · left; exact Nat.max_eq_left (by omega)
    · right; exact List.mem_cons_of_mem _ h

/-- when exactly the blocks `< n` were read, `blocks_read.iter().max()` (`None => 0`) is `n - 1` -/
theorem maxRead_eq (r : Rd) (n : Nat) (h : ∀ j, j ∈ r.blocksRead ↔ j < n) : r.maxRead = n - 1 := by
  unfold Rd.maxRead
  have hge := foldl_max_ge r.blocksRead 0
  rcases foldl_max_mem r.blocksRead 0 with hm | hm
  · rw [hm]
    rcases Nat.eq_zero_or_pos n with h0 | h0
    · omega
    · have := hge.2 (n - 1) ((h _).mpr (by omega))
      omega
  · have h1 := (h _).mp hm
    rcases Nat.eq_zero_or_pos n with h0 | h0
    · omega
    · have := hge.2 (n - 1) ((h _).mpr (by omega))
      omega

/-! ### the streamed readers (gz, bz2, lz4) -/

/-- the kinds whose block decode is right: gz, bz2 and lz4 for every chunking; the lz4 reader as it
was before the repair (`lz4Single`) only when the decoder fills the buffer -/
def DecOk (kind : Kind) (bs : Nat) (cs : List Nat) : Prop :=
  kind = .gz ∨ kind = .bz2 ∨ kind = .lz4 ∨ (kind = .lz4Single ∧ Fills bs cs)

theorem take_min_length (l : Bytes) (a : Nat) : l.take (min a l.length) = l.take a := by
  by_cases h : a ≤ l.length
  · rw [Nat.min_eq_left h]
  · rw [Nat.min_eq_right (by omega), List.take_of_length_le (Nat.le_refl _),
      List.take_of_length_le (by omega)]

theorem decodeBlock_spec (kind : Kind) (bs : Nat) (s : Dec) (need : Nat) (hk : DecOk kind bs s.cs)
    (h1 : need ≤ bs) (h2 : need ≤ s.rest.length) :
    ∃ s', decodeBlock kind s need = some (s.rest.take need, s') ∧ s'.rest = s.rest.drop need
      ∧ DecOk kind bs s'.cs := by
  rcases hk with rfl | rfl | rfl | ⟨rfl, hf⟩
  · obtain ⟨s', e1, e2⟩ := fill_spec (some GZ_BUF_SZ) (by intro c hc; cases hc; decide) need s need []
      (Nat.le_refl _) h2
    exact ⟨s', by simpa [decodeBlock] using e1, e2, Or.inl rfl⟩
  · obtain ⟨s', e1, e2⟩ := fill_spec none (by intro c hc; cases hc) need s need [] (Nat.le_refl _) h2
    exact ⟨s', by simpa [decodeBlock, BZ2_FILL_LOOP] using e1, e2, Or.inr (Or.inl rfl)⟩
  · -- lz4: the generated `LZ4_FILL_LOOP` is unfolded here; were the source to go back to the single
    -- read it would regenerate `false` and this step would no longer close
    obtain ⟨e1, e2⟩ := fillBreak_spec need s need [] (Nat.le_refl _) h2
    refine ⟨(fillBreak need s need []).2, ?_, e2, Or.inr (Or.inr (Or.inl rfl))⟩
    simp only [decodeBlock, LZ4_FILL_LOOP, if_true]
    rw [← List.nil_append (List.take need s.rest), ← e1]
  · obtain ⟨e1, e2, e3⟩ := readOnce_spec s bs need hf h1 h2
    refine ⟨(readOnce s need).2, ?_, e2, Or.inr (Or.inr (Or.inr ⟨rfl, e3⟩))⟩
    simp only [decodeBlock]
    rw [← e1]

structure SInv (d : Bytes) (r : Rd) (n : Nat) : Prop where
  hbs : 1 ≤ r.bs
  hfsz : r.fsz = d.length
  hk : DecOk r.kind r.bs r.dec.cs
  good : Good d r.bs r.blocks
  goodL : Good d r.bs r.lru
  hread : ∀ j, j ∈ r.blocksRead ↔ j < n
  hpos : r.dec.rest = d.drop (n * r.bs)
  htop : 0 < n → mget r.blocks (n - 1) = some (blockAt d r.bs (n - 1))
  hn : 0 < n → n - 1 ≤ blockOffsetLast d.length r.bs
  /-- the look-back drop as coded: only the highest decoded block is still in `blocks` -/
  hdropped : ∀ j, j + 1 < n → mget r.blocks j = none
  /-- the LRU cache only holds decoded blocks -/
  hlruKeys : ∀ p ∈ r.lru, p.1 < n
  /-- exactly one block is held between calls; `blocks_highest` never exceeds 2 -/
  hblocks : r.blocks = if n = 0 then [] else [(n - 1, blockAt d r.bs (n - 1))]
  hhigh : r.high ≤ 2
  /-- `drop_data` is on (as `new` leaves it): the look-back drop takes effect -/
  hdd : r.dropData = true

theorem dropBlock_on (r : Rd) (k : Nat) (h : r.dropData = true) :
    dropBlock r k = { r with blocks := mdel r.blocks k, lru := mdel r.lru k } := by
  simp [dropBlock, h]

theorem dropBlock_off (r : Rd) (k : Nat) (h : r.dropData = false) : dropBlock r k = r := by
  simp [dropBlock, h, DROP_BLOCK_GUARDED_BY_DROP_DATA]

theorem dropBlock_kind (r : Rd) (k : Nat) : (dropBlock r k).kind = r.kind := by
  unfold dropBlock; split <;> rfl

theorem dropBlock_bs (r : Rd) (k : Nat) : (dropBlock r k).bs = r.bs := by
  unfold dropBlock; split <;> rfl

theorem blockAt_ne_nil (d : Bytes) (bs k : Nat) (hbs : 1 ≤ bs) (hd : d ≠ [])
    (hk : k ≤ blockOffsetLast d.length bs) : blockAt d bs k ≠ [] := by
  have hn : 0 < d.length := List.length_pos_iff.mpr hd
  have := (le_blockOffsetLast_iff d.length bs k hbs hn).mp hk
  rw [← List.length_pos_iff, blockAt_length]
  omega

/-- one decoded block: stored, cached, predecessor dropped — the invariant moves from `n` to `n + 1` -/
theorem SInv.step {d : Bytes} {r : Rd} {n : Nat} (h : SInv d r n) (hd : d ≠ [])
    (hk : n ≤ blockOffsetLast d.length r.bs) (dec' : Dec)
    (hrest : dec'.rest = d.drop ((n + 1) * r.bs)) (hok : DecOk r.kind r.bs dec'.cs) :
    SInv d (afterDecode r n (n - 1) (blockAt d r.bs n) dec') (n + 1)
      ∧ (afterDecode r n (n - 1) (blockAt d r.bs n) dec').bs = r.bs := by
  have hne := blockAt_ne_nil d r.bs n h.hbs hd hk
  have hnot : n ∉ r.blocksRead := fun hm => by have := (h.hread n).mp hm; omega
  by_cases h0 : n = 0
  · subst h0
    have e : afterDecode r 0 (0 - 1) (blockAt d r.bs 0) dec'
        = storeLru (storeBlock { r with dec := dec' } 0 (blockAt d r.bs 0)) 0 (blockAt d r.bs 0) := by
      simp [afterDecode]
    rw [e]
    refine ⟨⟨h.hbs, h.hfsz, hok, ?_, ?_, ?_, hrest, ?_, ?_, by intro j hj; omega,
      keys_lruPut (keys_mono h.hlruKeys (by omega)) 0 _ (by omega), ?_, ?_, h.hdd⟩, rfl⟩
    rotate_right 2
    · have hb0 := h.hblocks
      simp only [if_true] at hb0
      simp [storeLru, storeBlock, hb0, S4V.Model.Stream.mins, mdel]
    · have hb0 := h.hblocks
      simp only [if_true] at hb0
      have := h.hhigh
      simp only [storeLru, storeBlock, hb0, S4V.Model.Stream.mins, mdel, List.filter_nil, List.length_cons, List.length_nil]
      omega
    · exact h.good.mins 0 _ rfl hne
    · exact h.goodL.lruPut 0 _ rfl hne
    · intro j
      simp only [storeLru, storeBlock, hnot, if_false, List.mem_cons]
      rw [h.hread j]
      omega
    · intro _
      simp only [storeLru, storeBlock]
      exact mget_mins_self _ _ _
    · intro _; omega
  · have hlt : n - 1 < n := by omega
    have e : afterDecode r n (n - 1) (blockAt d r.bs n) dec'
        = dropBlock (storeLru (storeBlock { r with dec := dec' } n (blockAt d r.bs n)) n (blockAt d r.bs n)) (n - 1) := by
      simp [afterDecode, READ_BLOCK_LOOKBACK_DROP, hlt]
    rw [e, dropBlock_on _ _ (by exact h.hdd)]
    have hb0 := h.hblocks
    rw [if_neg h0] at hb0
    have e1 : (n - 1 != n) = true := by simp; omega
    have e2 : (n != n - 1) = true := by simp; omega
    have g1 : Good d r.bs (mdel (mins r.blocks n (blockAt d r.bs n)) (n - 1)) := (h.good.mins n _ rfl hne).mdel _
    have g2 : Good d r.bs (mdel (lruPut r.lru n (blockAt d r.bs n)) (n - 1)) := (h.goodL.lruPut n _ rfl hne).mdel _
    have g3 : ∀ j, j ∈ (n :: r.blocksRead) ↔ j < n + 1 := by
      intro j
      simp only [List.mem_cons]
      rw [h.hread j]
      omega
    have g4 : 0 < n + 1 → mget (mdel (mins r.blocks n (blockAt d r.bs n)) (n - 1)) (n + 1 - 1) = some (blockAt d r.bs (n + 1 - 1)) := by
      intro _
      rw [Nat.add_sub_cancel, mget_mdel_ne _ _ _ (by omega)]
      exact mget_mins_self _ _ _
    have g5 : 0 < n + 1 → n + 1 - 1 ≤ blockOffsetLast d.length r.bs := by intro _; omega
    have g6 : ∀ j, j + 1 < n + 1 → mget (mdel (mins r.blocks n (blockAt d r.bs n)) (n - 1)) j = none := by
      intro j hj
      by_cases hj1 : j = n - 1
      · rw [hj1]; exact mget_mdel_self _ _
      · rw [mget_mdel_ne _ _ _ hj1, mget_mins_ne _ _ _ _ (by omega)]
        exact h.hdropped j (by omega)
    have g7 : mdel (mins r.blocks n (blockAt d r.bs n)) (n - 1)
        = if n + 1 = 0 then [] else [(n + 1 - 1, blockAt d r.bs (n + 1 - 1))] := by
      rw [if_neg (by omega), Nat.add_sub_cancel, hb0]
      simp [S4V.Model.Stream.mins, mdel, List.filter, e1, e2]
    have g8 : max r.high (mins r.blocks n (blockAt d r.bs n)).length ≤ 2 := by
      have := h.hhigh
      rw [hb0]
      simp only [S4V.Model.Stream.mins, mdel, List.filter, e1, List.length_cons, List.length_nil]
      omega
    refine ⟨⟨h.hbs, h.hfsz, hok, g1, g2, ?_, hrest, g4, g5, g6,
      keys_mdel (keys_lruPut (keys_mono h.hlruKeys (by omega)) n _ (by omega)) _, g7, g8, h.hdd⟩, rfl⟩
    intro j
    simp only [dropBlock, storeLru, storeBlock, hnot, if_false]
    exact g3 j

theorem szAt_eq (d : Bytes) (r : Rd) (k : Nat) (hbs : 1 ≤ r.bs) (hf : r.fsz = d.length) (hd : d ≠ [])
    (hk : k ≤ blockOffsetLast d.length r.bs) : r.szAt k = (blockAt d r.bs k).length := by
  unfold Rd.szAt Rd.last
  rw [hf, blockAt_length_eq_blockSz d r.bs k hbs hd hk]

/-- the decode phase of the loop: from `n` blocks decoded, asking for `k ≥ n` decodes `n..k`,
returns block `k`, and leaves `k + 1` decoded -/
theorem streamLoop_decode (d : Bytes) (hd : d ≠ []) :
    ∀ (fuel : Nat) (r : Rd) (n k : Nat), SInv d r n → n ≤ k → k ≤ blockOffsetLast d.length r.bs →
      k + 1 - n ≤ fuel →
      ∃ r', streamLoop fuel r k n (n - 1) = (.found (blockAt d r.bs k), r') ∧ SInv d r' (k + 1)
        ∧ r'.bs = r.bs ∧ r'.kind = r.kind := by
  intro fuel
  induction fuel with
  | zero => intro r n k _ h1 _ h3; omega
  | succ fuel ih =>
    intro r n k h h1 h2 h3
    have hlen : 0 < d.length := List.length_pos_iff.mpr hd
    have hnl : n ≤ blockOffsetLast d.length r.bs := by omega
    have hnot : n ∉ r.blocksRead := fun hm => by have := (h.hread n).mp hm; omega
    have hsz := szAt_eq d r n h.hbs h.hfsz hd hnl
    have hlt := (le_blockOffsetLast_iff d.length r.bs n h.hbs hlen).mp hnl
    have hbl := blockAt_length d r.bs n
    obtain ⟨s', e1, e2, e3⟩ := decodeBlock_spec r.kind r.bs r.dec (r.szAt n) h.hk
      (by rw [hsz, hbl]; omega) (by rw [hsz, hbl, h.hpos, List.length_drop]; omega)
    have eb : r.dec.rest.take (r.szAt n) = blockAt d r.bs n := by
      rw [hsz, hbl, h.hpos]
      unfold blockAt
      rw [← List.length_drop, take_min_length]
    rw [eb] at e1
    have erest : s'.rest = d.drop ((n + 1) * r.bs) := by
      rw [e2, h.hpos, List.drop_drop, hsz, hbl]
      have hmul : (n + 1) * r.bs = n * r.bs + r.bs := by rw [Nat.add_mul]; omega
      have : r.bs ≤ d.length - n * r.bs ∨ d.length - n * r.bs < r.bs := by omega
      rcases this with hh | hh
      · rw [Nat.min_eq_left hh, hmul]
      · rw [List.drop_of_length_le (by rw [Nat.min_eq_right (by omega)]; omega),
          List.drop_of_length_le (by omega)]
    obtain ⟨hstep, hbs'⟩ := h.step hd hnl s' erest e3
    have hne := blockAt_ne_nil d r.bs n h.hbs hd hnl
    have hemp : (blockAt d r.bs n).isEmpty = false := by
      cases hb : blockAt d r.bs n with
      | nil => exact absurd hb hne
      | cons _ _ => rfl
    rw [streamLoop, if_pos h1, if_neg hnot, e1]
    simp only [hemp, Bool.false_eq_true, if_false]
    by_cases hnk : n = k
    · subst hnk
      rw [if_pos rfl]
      exact ⟨_, rfl, hstep, hbs', by simp only [afterDecode]; split <;> simp [dropBlock_kind, storeLru, storeBlock]⟩
    · rw [if_neg hnk]
      have hkind : (afterDecode r n (n - 1) (blockAt d r.bs n) s').kind = r.kind := by
        simp only [afterDecode]; split <;> simp [dropBlock_kind, storeLru, storeBlock]
      obtain ⟨r', f1, f2, f3, f4⟩ := ih (afterDecode r n (n - 1) (blockAt d r.bs n) s') (n + 1) k hstep
        (by omega) (by rw [hbs']; exact h2) (by omega)
      rw [Nat.add_sub_cancel, hbs'] at f1
      exact ⟨r', f1, f2, by rw [f3, hbs'], by rw [f4, hkind]⟩

theorem last_eq (d : Bytes) (r : Rd) (hf : r.fsz = d.length) : r.last = blockOffsetLast d.length r.bs := by
  unfold Rd.last; rw [hf]

theorem Good.empty_of_nil {bs : Nat} {m : BMap} (h : Good [] bs m) (k : Nat) : mget m k = none := by
  cases hg : mget m k with
  | none => rfl
  | some b =>
    obtain ⟨e1, e2⟩ := h.get hg
    exact absurd (by rw [e1]; simp [blockAt]) e2

theorem dispatch_stream (r : Rd) (k : Nat) (bs : Nat) (cs : List Nat) (h : DecOk r.kind bs cs) :
    dispatch r k = readStream r k := by
  unfold dispatch
  rcases h with e | e | e | ⟨e, _⟩ <;> rw [e]

/-- `read_block(k)` on a streamed reader that has decoded `n ≤ k + 1` blocks -/
theorem readBlock_stream (d : Bytes) (r : Rd) (n k : Nat) (h : SInv d r n) (hord : n ≤ k + 1) :
    ∃ r' n', readBlock r k = (specRes d r.bs k, r') ∧ SInv d r' n' ∧ r'.bs = r.bs ∧ n' ≤ k + 1
      ∧ (d ≠ [] → k ≤ blockOffsetLast d.length r.bs → n' = k + 1) := by
  have hlast := last_eq d r h.hfsz
  unfold readBlock specRes
  rw [hlast]
  by_cases hk : k > blockOffsetLast d.length r.bs
  · rw [if_pos hk, if_pos hk]
    exact ⟨r, n, rfl, h, rfl, hord, fun _ h2 => by omega⟩
  · rw [if_neg hk, if_neg hk]
    by_cases hd : d = []
    · subst hd
      have hn0 : n = 0 := by
        rcases Nat.eq_zero_or_pos n with h0 | h0
        · exact h0
        · have := h.htop h0
          rw [h.good.empty_of_nil] at this
          cases this
      subst hn0
      rw [h.goodL.empty_of_nil k]
      have hnot : k ∉ r.blocksRead := fun hm => by have := (h.hread k).mp hm; omega
      simp only [hnot, if_false, List.isEmpty_nil, if_true]
      rw [dispatch_stream r k r.bs _ h.hk]
      unfold readStream
      rw [if_pos (by rw [h.hfsz]; rfl)]
      exact ⟨r, 0, rfl, h, rfl, by omega, fun h1 _ => absurd rfl h1⟩
    · have hemp : d.isEmpty = false := by
        cases d with
        | nil => exact absurd rfl hd
        | cons _ _ => rfl
      simp only [hemp, Bool.false_eq_true, if_false]
      cases hl : mget r.lru k with
      | some b =>
        obtain ⟨e1, e2⟩ := h.goodL.get hl
        simp only
        subst e1
        have hkn := h.hlruKeys _ (mget_some_mem hl)
        exact ⟨{ r with lru := mins r.lru k (blockAt d r.bs k) }, n, rfl,
          ⟨h.hbs, h.hfsz, h.hk, h.good, h.goodL.mins k _ rfl e2, h.hread, h.hpos, h.htop, h.hn, h.hdropped,
            keys_mins h.hlruKeys k _ hkn, h.hblocks, h.hhigh, h.hdd⟩, rfl, hord, fun _ _ => by simp at hkn; omega⟩
      | none =>
        simp only
        by_cases hm : k ∈ r.blocksRead
        · have hkn : k = n - 1 := by have := (h.hread k).mp hm; omega
          have hnp : 0 < n := by have := (h.hread k).mp hm; omega
          rw [if_pos hm, hkn, h.htop hnp]
          simp only
          exact ⟨storeLru r (n - 1) (blockAt d r.bs (n - 1)), n, rfl,
            ⟨h.hbs, h.hfsz, h.hk, h.good, h.goodL.lruPut _ _ rfl (blockAt_ne_nil d r.bs _ h.hbs hd (h.hn hnp)),
              h.hread, h.hpos, h.htop, h.hn, h.hdropped, keys_lruPut h.hlruKeys _ _ (by omega), h.hblocks, h.hhigh, h.hdd⟩, rfl, by omega,
              fun _ _ => by omega⟩
        · have hkn : n ≤ k := by
            rcases Nat.lt_or_ge k n with hh | hh
            · exact absurd ((h.hread k).mpr hh) hm
            · exact hh
          rw [if_neg hm, dispatch_stream r k r.bs _ h.hk]
          unfold readStream
          have hlen : 0 < d.length := List.length_pos_iff.mpr hd
          rw [if_neg (by rw [h.hfsz]; omega), maxRead_eq r n h.hread]
          by_cases h0 : n = 0
          · subst h0
            obtain ⟨r', f1, f2, f3, _⟩ := streamLoop_decode d hd (k + 2) r 0 k h (by omega) (by omega) (by omega)
            exact ⟨r', k + 1, f1, f2, f3, Nat.le_refl _, fun _ _ => rfl⟩
          · have hin : n - 1 ∈ r.blocksRead := (h.hread _).mpr (by omega)
            obtain ⟨r', f1, f2, f3, _⟩ := streamLoop_decode d hd (k + 1) r n k h hkn (by omega) (by omega)
            refine ⟨r', k + 1, ?_, f2, f3, Nat.le_refl _, fun _ _ => rfl⟩
            rw [streamLoop, if_pos (by omega), if_pos hin, if_neg (by omega)]
            have : n - 1 + 1 = n := by omega
            rw [this]
            exact f1

/-- a request sequence in non-decreasing order, every answer is the plain reader's -/
theorem readSeq_stream (d : Bytes) :
    ∀ (ks : List Nat) (r : Rd) (n : Nat), SInv d r n → (∀ x ∈ ks, n ≤ x + 1) → ks.Pairwise (· ≤ ·) →
      (readSeq r ks).1 = ks.map (specRes d r.bs) := by
  intro ks
  induction ks with
  | nil => intro r n _ _ _; rfl
  | cons k ks ih =>
    intro r n h hn hp
    obtain ⟨r', n', e1, e2, e3, e4, _⟩ := readBlock_stream d r n k h (hn k List.mem_cons_self)
    rw [List.pairwise_cons] at hp
    have := ih r' n' e2 (fun x hx => by have := hp.1 x hx; omega) hp.2
    simp only [readSeq, List.map_cons, e1]
    rw [this, e3]

theorem readSeq_append (r : Rd) (ks : List Nat) (k : Nat) :
    readSeq r (ks ++ [k]) = ((readSeq r ks).1 ++ [(readBlock (readSeq r ks).2 k).1], (readBlock (readSeq r ks).2 k).2) := by
  induction ks generalizing r with
  | nil => simp [readSeq]
  | cons a ks ih => simp [readSeq, ih]

/-- the state after a non-decreasing request sequence still satisfies the invariant, with no more
blocks decoded than the requests demand -/
theorem readSeq_stream_state (d : Bytes) :
    ∀ (ks : List Nat) (r : Rd) (n : Nat), SInv d r n → (∀ x ∈ ks, n ≤ x + 1) → ks.Pairwise (· ≤ ·) →
      ∃ n', SInv d (readSeq r ks).2 n' ∧ (readSeq r ks).2.bs = r.bs ∧
        ∀ y, (∀ x ∈ ks, x ≤ y) → n ≤ y + 1 → n' ≤ y + 1 := by
  intro ks
  induction ks with
  | nil => intro r n h _ _; exact ⟨n, h, rfl, fun y _ hy => hy⟩
  | cons k ks ih =>
    intro r n h hn hp
    obtain ⟨r', n', e1, e2, e3, e4, _⟩ := readBlock_stream d r n k h (hn k List.mem_cons_self)
    rw [List.pairwise_cons] at hp
    obtain ⟨n'', f1, f2, f3⟩ := ih r' n' e2 (fun x hx => by have := hp.1 x hx; omega) hp.2
    have er : (readSeq r (k :: ks)).2 = (readSeq r' ks).2 := by simp only [readSeq, e1]
    rw [er]
    refine ⟨n'', f1, by rw [f2, e3], ?_⟩
    intro y hy _
    exact f3 y (fun x hx => hy x (List.mem_cons_of_mem _ hx)) (by have := hy k List.mem_cons_self; omega)

/-- after `ks ++ [k]` (non-decreasing, `k` in range): block `k` is held, every earlier block is gone -/
theorem lookback_state (d : Bytes) (ks : List Nat) (k : Nat) (r : Rd) (h : SInv d r 0)
    (hord : (ks ++ [k]).Pairwise (· ≤ ·)) (hd : d ≠ []) (hlast : k ≤ blockOffsetLast d.length r.bs) :
    mget (readSeq r (ks ++ [k])).2.blocks k = some (blockAt d r.bs k)
      ∧ ∀ j, j < k → mget (readSeq r (ks ++ [k])).2.blocks j = none := by
  rw [List.pairwise_append] at hord
  obtain ⟨hp, _, hle⟩ := hord
  obtain ⟨n1, f1, f2, f3⟩ := readSeq_stream_state d ks r 0 h (fun x _ => by omega) hp
  have hn1 : n1 ≤ k + 1 := f3 k (fun x hx => hle x hx k (by simp)) (by omega)
  obtain ⟨r', n', e1, e2, e3, _, e5⟩ := readBlock_stream d (readSeq r ks).2 n1 k f1 hn1
  have hn' : n' = k + 1 := e5 hd (by rw [f2]; exact hlast)
  subst hn'
  rw [readSeq_append]
  have : (readBlock (readSeq r ks).2 k).2 = r' := by rw [e1]
  simp only [this]
  have ht := e2.htop (by omega)
  rw [Nat.add_sub_cancel, e3, f2] at ht
  exact ⟨ht, fun j hj => e2.hdropped j (by omega)⟩

theorem SInv.new (kind : Kind) (bs : Nat) (d : Bytes) (cs csPre : List Nat) (hbs : 1 ≤ bs)
    (hk : DecOk kind bs cs) : SInv d (Rd.new kind bs d cs csPre) 0 ∧ (Rd.new kind bs d cs csPre).bs = bs := by
  have hcount : countLoop PREPASS_BUF_SZ (d.length + 1) ⟨d, csPre⟩ 0 = d.length := by
    rw [countLoop_spec PREPASS_BUF_SZ (by decide) _ _ _ (by simp)]
    simp
  rcases hk with rfl | rfl | rfl | ⟨rfl, hf⟩
  · exact ⟨⟨hbs, rfl, Or.inl rfl, Good.nil _ _, Good.nil _ _, by intro j; simp [Rd.new], by simp [Rd.new],
      by intro h; omega, by intro h; omega, by intro j h; omega,
      by intro p hp; simp [Rd.new] at hp, by simp [Rd.new], by simp [Rd.new], rfl⟩, rfl⟩
  · exact ⟨⟨hbs, hcount, Or.inr (Or.inl rfl), Good.nil _ _, Good.nil _ _, by intro j; simp [Rd.new],
      by simp [Rd.new], by intro h; omega, by intro h; omega, by intro j h; omega,
      by intro p hp; simp [Rd.new] at hp, by simp [Rd.new], by simp [Rd.new], rfl⟩, rfl⟩
  · exact ⟨⟨hbs, hcount, Or.inr (Or.inr (Or.inl rfl)), Good.nil _ _, Good.nil _ _, by intro j; simp [Rd.new],
      by simp [Rd.new], by intro h; omega, by intro h; omega, by intro j h; omega,
      by intro p hp; simp [Rd.new] at hp, by simp [Rd.new], by simp [Rd.new], rfl⟩, rfl⟩
  · exact ⟨⟨hbs, hcount, Or.inr (Or.inr (Or.inr ⟨rfl, hf⟩)), Good.nil _ _, Good.nil _ _, by intro j; simp [Rd.new],
      by simp [Rd.new], by intro h; omega, by intro h; omega, by intro j h; omega,
      by intro p hp; simp [Rd.new] at hp, by simp [Rd.new], by simp [Rd.new], rfl⟩, rfl⟩

/-! ### the plain reader -/

structure PInv (d : Bytes) (r : Rd) : Prop where
  hbs : 1 ≤ r.bs
  hfsz : r.fsz = d.length
  hsrc : r.src = d
  hkind : r.kind = .plain
  good : Good d r.bs r.blocks
  goodL : Good d r.bs r.lru

theorem specRes_found (d : Bytes) (bs k : Nat) (hk : k ≤ blockOffsetLast d.length bs) (hd : d ≠ []) :
    specRes d bs k = .found (blockAt d bs k) := by
  unfold specRes
  rw [if_neg (by omega)]
  cases d with
  | nil => exact absurd rfl hd
  | cons _ _ => rfl

theorem specRes_nil (bs k : Nat) : specRes [] bs k = .done := by
  unfold specRes; split <;> rfl

theorem readFile_spec (d : Bytes) (r : Rd) (k : Nat) (h : PInv d r)
    (hk : k ≤ blockOffsetLast d.length r.bs) :
    ∃ r', readFile r k = (specRes d r.bs k, r') ∧ PInv d r' ∧ r'.bs = r.bs := by
  unfold readFile
  by_cases hd : d = []
  · subst hd
    have : r.szAt k = 0 := by
      unfold Rd.szAt blockSzAtBlockOffset
      rw [h.hfsz]; simp
    rw [specRes_nil]
    simp only [this, Nat.not_lt_zero, if_false, if_true]
    exact ⟨r, rfl, h, rfl⟩
  · have hlen : 0 < d.length := List.length_pos_iff.mpr hd
    have hsz := szAt_eq d r k h.hbs h.hfsz hd hk
    have hlt := (le_blockOffsetLast_iff d.length r.bs k h.hbs hlen).mp hk
    have hbl := blockAt_length d r.bs k
    have hne := blockAt_ne_nil d r.bs k h.hbs hd hk
    have eb : (r.src.drop (r.bs * k)).take (r.szAt k) = blockAt d r.bs k := by
      rw [hsz, hbl, h.hsrc, Nat.mul_comm r.bs k]
      unfold blockAt
      rw [← List.length_drop, take_min_length]
    have hav : (r.src.drop (r.bs * k)).length = d.length - k * r.bs := by
      rw [h.hsrc, List.length_drop, Nat.mul_comm]
    have hmin := Nat.min_le_right r.bs (d.length - k * r.bs)
    have hbs := h.hbs
    rw [specRes_found d r.bs k hk hd, if_neg (by rw [hav, hsz, hbl]; omega),
      if_neg (by rw [hsz, hbl]; omega), eb]
    exact ⟨_, rfl, ⟨h.hbs, h.hfsz, h.hsrc, h.hkind, h.good.mins k _ rfl hne, h.goodL.lruPut k _ rfl hne⟩, rfl⟩

/-- the plain reader answers every request, in any order, with the block of `d` -/
theorem readBlock_plain (d : Bytes) (r : Rd) (k : Nat) (h : PInv d r) :
    ∃ r', readBlock r k = (specRes d r.bs k, r') ∧ PInv d r' ∧ r'.bs = r.bs := by
  have hlast := last_eq d r h.hfsz
  unfold readBlock
  rw [hlast]
  by_cases hk : k > blockOffsetLast d.length r.bs
  · rw [if_pos hk]
    exact ⟨r, by unfold specRes; rw [if_pos hk], h, rfl⟩
  · rw [if_neg hk]
    have hfound : ∀ b, b = blockAt d r.bs k → b ≠ [] → specRes d r.bs k = .found b := by
      intro b e1 e2
      unfold specRes
      rw [if_neg hk]
      have : d.isEmpty = false := by
        cases d with
        | nil => subst e1; simp [blockAt] at e2
        | cons _ _ => rfl
      simp only [this, Bool.false_eq_true, if_false, e1]
    cases hl : mget r.lru k with
    | some b =>
      obtain ⟨e1, e2⟩ := h.goodL.get hl
      exact ⟨{ r with lru := mins r.lru k b }, by simp only; rw [hfound b e1 e2],
        ⟨h.hbs, h.hfsz, h.hsrc, h.hkind, h.good, h.goodL.mins k b e1 e2⟩, rfl⟩
    | none =>
      simp only
      have hdisp : ∀ r0 : Rd, r0.kind = .plain → dispatch r0 k = readFile r0 k := by
        intro r0 e; unfold dispatch; rw [e]
      by_cases hm : k ∈ r.blocksRead
      · rw [if_pos hm]
        cases hb : mget r.blocks k with
        | some b =>
          obtain ⟨e1, e2⟩ := h.good.get hb
          exact ⟨storeLru r k b, by simp only; rw [hfound b e1 e2],
            ⟨h.hbs, h.hfsz, h.hsrc, h.hkind, h.good, h.goodL.lruPut k b e1 e2⟩, rfl⟩
        | none =>
          simp only
          rw [hdisp { r with blocksRead := r.blocksRead.erase k } h.hkind]
          exact readFile_spec d { r with blocksRead := r.blocksRead.erase k } k
            ⟨h.hbs, h.hfsz, h.hsrc, h.hkind, h.good, h.goodL⟩
            (show k ≤ blockOffsetLast d.length r.bs by omega)
      · rw [if_neg hm, hdisp _ h.hkind]
        exact readFile_spec d r k h (by omega)

theorem readSeq_plain (d : Bytes) :
    ∀ (ks : List Nat) (r : Rd), PInv d r → (readSeq r ks).1 = ks.map (specRes d r.bs) := by
  intro ks
  induction ks with
  | nil => intro r _; rfl
  | cons k ks ih =>
    intro r h
    obtain ⟨r', e1, e2, e3⟩ := readBlock_plain d r k h
    have := ih r' e2
    simp only [readSeq, List.map_cons, e1]
    rw [this, e3]

theorem PInv.new (bs : Nat) (d : Bytes) (cs csPre : List Nat) (hbs : 1 ≤ bs) :
    PInv d (Rd.new .plain bs d cs csPre) :=
  ⟨hbs, rfl, rfl, rfl, Good.nil _ _, Good.nil _ _⟩

/-! ### xz: all blocks made in `new` -/

/-- the blocks `bo - 1, …, 0` in the order the split loop leaves them -/
def xzList (d : Bytes) (bs : Nat) : Nat → BMap
  | 0 => []
  | n + 1 => (n, blockAt d bs n) :: xzList d bs n

def xzKeys : Nat → List Nat
  | 0 => []
  | n + 1 => n :: xzKeys n

theorem xzList_keys (d : Bytes) (bs n : Nat) : ∀ p ∈ xzList d bs n, p.1 < n := by
  induction n with
  | zero => intro p hp; cases hp
  | succ n ih =>
    intro p hp
    rcases List.mem_cons.mp hp with rfl | hp
    · exact Nat.lt_succ_self _
    · exact Nat.lt_succ_of_lt (ih p hp)

theorem xzKeys_mem (n j : Nat) : j ∈ xzKeys n ↔ j < n := by
  induction n with
  | zero => simp [xzKeys]
  | succ n ih => simp only [xzKeys, List.mem_cons, ih]; omega

theorem mdel_of_keys_lt (m : BMap) (k : Nat) (h : ∀ p ∈ m, p.1 < k) : mdel m k = m := by
  unfold mdel
  rw [List.filter_eq_self]
  intro p hp
  have := h p hp
  simp only [bne_iff_ne, ne_eq]
  omega

theorem xz_slice (d : Bytes) (bs bo : Nat) :
    (d.take (bo * bs + min bs (d.length - bo * bs))).drop (bo * bs) = blockAt d bs bo := by
  unfold blockAt
  rw [List.drop_take, Nat.add_sub_cancel_left, ← List.length_drop, take_min_length]

theorem xzSplit_eq (d : Bytes) (bs : Nat) : ∀ (n bo : Nat),
    xzSplit d bs n bo (xzList d bs bo) (xzKeys bo) = (xzList d bs (bo + n), xzKeys (bo + n)) := by
  intro n
  induction n with
  | zero => intro bo; rfl
  | succ n ih =>
    intro bo
    rw [xzSplit]
    have hnot : bo ∉ xzKeys bo := fun h => by have := (xzKeys_mem bo bo).mp h; omega
    simp only [hnot, if_false, xz_slice]
    have : mins (xzList d bs bo) bo (blockAt d bs bo) = xzList d bs (bo + 1) := by
      unfold S4V.Model.Stream.mins
      rw [mdel_of_keys_lt _ _ (xzList_keys d bs bo)]
      rfl
    rw [this]
    have := ih (bo + 1)
    rw [show bo + 1 + n = bo + (n + 1) by omega] at this
    exact this

theorem mget_xzList (d : Bytes) (bs n k : Nat) (hk : k < n) : mget (xzList d bs n) k = some (blockAt d bs k) := by
  induction n with
  | zero => omega
  | succ n ih =>
    rw [xzList, mget_cons]
    by_cases h : n = k
    · rw [if_pos h, h]
    · rw [if_neg h]; exact ih (by omega)

theorem xzList_sum (d : Bytes) (bs n : Nat) :
    ((xzList d bs n).map (·.2.length)).sum = min (n * bs) d.length := by
  induction n with
  | zero => simp [xzList]
  | succ n ih =>
    rw [xzList, List.map_cons, List.sum_cons, ih, blockAt_length, Nat.add_mul]
    omega

/-- what `new` leaves for a non-empty xz file: every block of `d` (plus, when `bs ∣ |d|`, one
empty block at key `|d| / bs`), `filesz_actual = |d|` -/
theorem xz_new (bs : Nat) (d : Bytes) (cs csPre : List Nat) (hbs : 1 ≤ bs) (hd : d ≠ []) :
    (Rd.new .xz bs d cs csPre).blocks = xzList d bs (d.length / bs + 1)
    ∧ (Rd.new .xz bs d cs csPre).blocksRead = xzKeys (d.length / bs + 1)
    ∧ (Rd.new .xz bs d cs csPre).fsz = d.length
    ∧ (Rd.new .xz bs d cs csPre).lru = [] ∧ (Rd.new .xz bs d cs csPre).bs = bs
    ∧ (Rd.new .xz bs d cs csPre).kind = .xz := by
  have hemp : d.isEmpty = false := by
    cases d with
    | nil => exact absurd rfl hd
    | cons _ _ => rfl
  have hs : xzSplit d bs (d.length / bs + 1) 0 [] [] = (xzList d bs (d.length / bs + 1), xzKeys (d.length / bs + 1)) := by
    have := xzSplit_eq d bs (d.length / bs + 1) 0
    rw [Nat.zero_add] at this
    exact this
  have hr : xzRounds d.length bs = d.length / bs + 1 := by simp [xzRounds, XZ_SPLIT_INCLUSIVE]
  have hnew : Rd.new .xz bs d cs csPre =
      { kind := .xz, bs := bs, fsz := ((xzList d bs (d.length / bs + 1)).map (·.2.length)).sum, src := d, dec := ⟨[], cs⟩,
        blocks := xzList d bs (d.length / bs + 1), blocksRead := xzKeys (d.length / bs + 1), lru := [],
        high := (xzList d bs (d.length / bs + 1)).length } := by
    simp only [Rd.new, hemp, Bool.false_eq_true, if_false, hr, hs]
  rw [hnew]
  refine ⟨rfl, rfl, ?_, rfl, rfl, rfl⟩
  show ((xzList d bs (d.length / bs + 1)).map (·.2.length)).sum = d.length
  rw [xzList_sum]
  have := Nat.lt_div_mul_add (a := d.length) (b := bs) (by omega)
  rw [Nat.add_mul]
  omega

structure XInv (d : Bytes) (r : Rd) : Prop where
  hbs : 1 ≤ r.bs
  hfsz : r.fsz = d.length
  hd : d ≠ []
  hall : ∀ k, k ≤ blockOffsetLast d.length r.bs → k ∈ r.blocksRead ∧ mget r.blocks k = some (blockAt d r.bs k)
  goodL : Good d r.bs r.lru

/-- xz: every in-range block is served from `blocks`; `read_block_FileXz` is never reached -/
theorem readBlock_xz (d : Bytes) (r : Rd) (k : Nat) (h : XInv d r) :
    ∃ r', readBlock r k = (specRes d r.bs k, r') ∧ XInv d r' ∧ r'.bs = r.bs := by
  have hlast := last_eq d r h.hfsz
  unfold readBlock
  rw [hlast]
  by_cases hk : k > blockOffsetLast d.length r.bs
  · rw [if_pos hk]
    exact ⟨r, by unfold specRes; rw [if_pos hk], h, rfl⟩
  · rw [if_neg hk, specRes_found d r.bs k (by omega) h.hd]
    have hne := blockAt_ne_nil d r.bs k h.hbs h.hd (by omega)
    cases hl : mget r.lru k with
    | some b =>
      obtain ⟨e1, e2⟩ := h.goodL.get hl
      subst e1
      exact ⟨{ r with lru := mins r.lru k (blockAt d r.bs k) }, rfl,
        ⟨h.hbs, h.hfsz, h.hd, h.hall, h.goodL.mins k _ rfl e2⟩, rfl⟩
    | none =>
      obtain ⟨h1, h2⟩ := h.hall k (by omega)
      simp only [h1, if_true, h2]
      exact ⟨storeLru r k (blockAt d r.bs k), rfl, ⟨h.hbs, h.hfsz, h.hd, h.hall, h.goodL.lruPut k _ rfl hne⟩, rfl⟩

theorem readSeq_xz (d : Bytes) :
    ∀ (ks : List Nat) (r : Rd), XInv d r → (readSeq r ks).1 = ks.map (specRes d r.bs) := by
  intro ks
  induction ks with
  | nil => intro r _; rfl
  | cons k ks ih =>
    intro r h
    obtain ⟨r', e1, e2, e3⟩ := readBlock_xz d r k h
    have := ih r' e2
    simp only [readSeq, List.map_cons, e1]
    rw [this, e3]

theorem XInv.new (bs : Nat) (d : Bytes) (cs csPre : List Nat) (hbs : 1 ≤ bs) (hd : d ≠ []) :
    XInv d (Rd.new .xz bs d cs csPre) := by
  obtain ⟨e1, e2, e3, e4, e5, _⟩ := xz_new bs d cs csPre hbs hd
  refine ⟨by rw [e5]; exact hbs, e3, hd, ?_, by rw [e4]; exact Good.nil _ _⟩
  intro k hk
  rw [e5] at hk ⊢
  have hlen : 0 < d.length := List.length_pos_iff.mpr hd
  have hlt := (le_blockOffsetLast_iff d.length bs k hbs hlen).mp hk
  have hkn : k < d.length / bs + 1 := by
    have : k ≤ d.length / bs := (Nat.le_div_iff_mul_le (by omega)).mpr (by omega)
    omega
  rw [e1, e2]
  exact ⟨(xzKeys_mem _ _).mpr hkn, mget_xzList d bs _ k hkn⟩

/-- an empty xz file: nothing stored, every request is `Done` -/
theorem readSeq_xz_nil (bs : Nat) (cs csPre : List Nat) (ks : List Nat) :
    (readSeq (Rd.new .xz bs [] cs csPre) ks).1 = ks.map (fun _ => S4V.Model.Stream.Res.done) := by
  have hstep : ∀ k, readBlock (Rd.new .xz bs [] cs csPre) k = (.done, Rd.new .xz bs [] cs csPre) := by
    intro k
    unfold readBlock
    by_cases hk : k > (Rd.new .xz bs [] cs csPre).last
    · rw [if_pos hk]
    · rw [if_neg hk]
      simp [Rd.new, mget, dispatch, readXz]
  induction ks with
  | nil => rfl
  | cons k ks ih => simp only [readSeq, hstep, List.map_cons, ih]

/-! ### tar: the member is read whole on the first miss -/

structure TInv (d : Bytes) (r : Rd) : Prop where
  hbs : 1 ≤ r.bs
  hfsz : r.fsz = d.length
  hsrc : r.src = d
  hkind : r.kind = .tar
  good : Good d r.bs r.blocks
  goodL : Good d r.bs r.lru

theorem tarLoop_spec (d : Bytes) (hd : d ≠ []) :
    ∀ (n : Nat) (r : Rd) (bo : Nat), TInv d r → bo + n = blockOffsetLast d.length r.bs + 1 →
      ∃ r', tarLoop n r (d.drop (bo * r.bs)) bo = some r' ∧ TInv d r' ∧ r'.bs = r.bs
        ∧ (∀ k, bo ≤ k → k ≤ blockOffsetLast d.length r.bs → mget r'.blocks k = some (blockAt d r.bs k))
        ∧ (∀ k, k < bo → mget r'.blocks k = mget r.blocks k) := by
  intro n
  induction n with
  | zero =>
    intro r bo h hn
    exact ⟨r, rfl, h, rfl, fun k h1 h2 => by omega, fun _ _ => rfl⟩
  | succ n ih =>
    intro r bo h hn
    have hlen : 0 < d.length := List.length_pos_iff.mpr hd
    have hbo : bo ≤ blockOffsetLast d.length r.bs := by omega
    have hsz := szAt_eq d r bo h.hbs h.hfsz hd hbo
    have hlt := (le_blockOffsetLast_iff d.length r.bs bo h.hbs hlen).mp hbo
    have hbl := blockAt_length d r.bs bo
    have hne := blockAt_ne_nil d r.bs bo h.hbs hd hbo
    have hbs := h.hbs
    have hmin := Nat.min_le_right r.bs (d.length - bo * r.bs)
    have eb : (d.drop (bo * r.bs)).take (r.szAt bo) = blockAt d r.bs bo := by
      rw [hsz, hbl]
      unfold blockAt
      rw [← List.length_drop, take_min_length]
    have erest : (d.drop (bo * r.bs)).drop (r.szAt bo) = d.drop ((bo + 1) * r.bs) := by
      rw [List.drop_drop, hsz, hbl]
      have hmul : (bo + 1) * r.bs = bo * r.bs + r.bs := by rw [Nat.add_mul]; omega
      have : r.bs ≤ d.length - bo * r.bs ∨ d.length - bo * r.bs < r.bs := by omega
      rcases this with hh | hh
      · rw [Nat.min_eq_left hh, hmul]
      · rw [List.drop_of_length_le (by rw [Nat.min_eq_right (by omega)]; omega),
          List.drop_of_length_le (by omega)]
    rw [tarLoop, if_neg (by rw [List.length_drop, hsz, hbl]; omega), if_neg (by rw [hsz, hbl]; omega), eb, erest]
    have h1 : TInv d (storeBlock r bo (blockAt d r.bs bo)) :=
      ⟨h.hbs, h.hfsz, h.hsrc, h.hkind, h.good.mins bo _ rfl hne, h.goodL⟩
    obtain ⟨r', f1, f2, f3, f4, f5⟩ := ih (storeBlock r bo (blockAt d r.bs bo)) (bo + 1) h1
      (show bo + 1 + n = blockOffsetLast d.length r.bs + 1 by omega)
    refine ⟨r', f1, f2, f3, ?_, ?_⟩
    · intro k hk1 hk2
      by_cases hkb : k = bo
      · subst hkb
        rw [f5 k (by omega)]
        exact mget_mins_self _ _ _
      · exact f4 k (by omega) hk2
    · intro k hk
      rw [f5 k (by omega)]
      exact mget_mins_ne _ _ _ _ (by omega)

theorem readTar_spec (d : Bytes) (r : Rd) (k : Nat) (h : TInv d r) (hk : k ≤ blockOffsetLast d.length r.bs) :
    ∃ r', readTar r k = (specRes d r.bs k, r') ∧ TInv d r' ∧ r'.bs = r.bs := by
  unfold readTar
  by_cases hd : d = []
  · subst hd
    rw [if_pos (by rw [h.hfsz]; rfl), specRes_nil]
    exact ⟨r, rfl, h, rfl⟩
  · have hlen : 0 < d.length := List.length_pos_iff.mpr hd
    rw [if_neg (by rw [h.hfsz]; omega), last_eq d r h.hfsz]
    obtain ⟨r', f1, f2, f3, f4, _⟩ := tarLoop_spec d hd (blockOffsetLast d.length r.bs + 1) r 0 h (by omega)
    rw [Nat.zero_mul, List.drop_zero] at f1
    rw [h.hsrc, f1]
    simp only [f4 k (by omega) hk, specRes_found d r.bs k hk hd]
    exact ⟨r', rfl, f2, f3⟩

theorem readBlock_tar (d : Bytes) (r : Rd) (k : Nat) (h : TInv d r) :
    ∃ r', readBlock r k = (specRes d r.bs k, r') ∧ TInv d r' ∧ r'.bs = r.bs := by
  have hlast := last_eq d r h.hfsz
  unfold readBlock
  rw [hlast]
  by_cases hk : k > blockOffsetLast d.length r.bs
  · rw [if_pos hk]
    exact ⟨r, by unfold specRes; rw [if_pos hk], h, rfl⟩
  · rw [if_neg hk]
    have hfound : ∀ b, b = blockAt d r.bs k → b ≠ [] → specRes d r.bs k = .found b := by
      intro b e1 e2
      have : d ≠ [] := by intro hd; subst hd; subst e1; simp [blockAt] at e2
      rw [specRes_found d r.bs k (by omega) this, e1]
    cases hl : mget r.lru k with
    | some b =>
      obtain ⟨e1, e2⟩ := h.goodL.get hl
      exact ⟨{ r with lru := mins r.lru k b }, by simp only; rw [hfound b e1 e2],
        ⟨h.hbs, h.hfsz, h.hsrc, h.hkind, h.good, h.goodL.mins k b e1 e2⟩, rfl⟩
    | none =>
      simp only
      have hdisp : ∀ r0 : Rd, r0.kind = .tar → dispatch r0 k = readTar r0 k := by
        intro r0 e; unfold dispatch; rw [e]
      by_cases hm : k ∈ r.blocksRead
      · rw [if_pos hm]
        cases hb : mget r.blocks k with
        | some b =>
          obtain ⟨e1, e2⟩ := h.good.get hb
          exact ⟨storeLru r k b, by simp only; rw [hfound b e1 e2],
            ⟨h.hbs, h.hfsz, h.hsrc, h.hkind, h.good, h.goodL.lruPut k b e1 e2⟩, rfl⟩
        | none =>
          simp only
          rw [hdisp { r with blocksRead := r.blocksRead.erase k } h.hkind]
          exact readTar_spec d { r with blocksRead := r.blocksRead.erase k } k
            ⟨h.hbs, h.hfsz, h.hsrc, h.hkind, h.good, h.goodL⟩
            (show k ≤ blockOffsetLast d.length r.bs by omega)
      · rw [if_neg hm, hdisp _ h.hkind]
        exact readTar_spec d r k h (by omega)

theorem readSeq_tar (d : Bytes) :
    ∀ (ks : List Nat) (r : Rd), TInv d r → (readSeq r ks).1 = ks.map (specRes d r.bs) := by
  intro ks
  induction ks with
  | nil => intro r _; rfl
  | cons k ks ih =>
    intro r h
    obtain ⟨r', e1, e2, e3⟩ := readBlock_tar d r k h
    have := ih r' e2
    simp only [readSeq, List.map_cons, e1]
    rw [this, e3]

theorem TInv.new (bs : Nat) (d : Bytes) (cs csPre : List Nat) (hbs : 1 ≤ bs) :
    TInv d (Rd.new .tar bs d cs csPre) :=
  ⟨hbs, rfl, rfl, rfl, Good.nil _ _, Good.nil _ _⟩

end S4V.Lemmas.Stream
