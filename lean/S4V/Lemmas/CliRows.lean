/-
Lemmas about the pattern rows of `process_dt` (`S4V.Model.Cli.firstRow`):
which strings no row can parse. Each is a decided fact about the generated
table lifted by a lemma about the interpreter.
-/
import S4V.Model.Cli

namespace S4V.Lemmas.CliRows
open S4V.Model.Cli S4V.Gen.CliTables

/-- the first item of a row's pattern is the year, or the literal `+` of `+%s` -/
def headOk : List Item → Bool
  | .year :: _ => true
  | .lit c :: _ => c == '+'
  | _ => false

/-- table fact: every row's (rewritten) pattern begins with `%Y` or with the literal `+` -/
theorem rows_headOk : cliFilterPatterns.all (fun r => headOk (parsePattern (rowPattern r))) = true := by
  decide

theorem parseItems_at_none (items : List Item) (h : headOk items = true) (r : List Char) (p : Parsed) :
    parseItems items ('@' :: r) p = none := by
  match items, h with
  | .year :: its, _ =>
    simp [parseItems, parseItem, trimStart, isWs, scanNumber, takeDigits, isDig]
  | .lit c :: its, h =>
    simp [headOk] at h
    subst h
    simp [parseItems, parseItem]

theorem strptime_at_none (pat : List Char) (h : headOk (parsePattern pat) = true) (r : List Char) :
    strptimeCliL pat ('@' :: r) = none := by
  simp [strptimeCliL, parseItems_at_none _ h]

theorem dropWhile_append_singleton (p : Char → Bool) (l : List Char) (c : Char) (h : p c = false) :
    (l ++ [c]).dropWhile p = l.dropWhile p ++ [c] := by
  induction l with
  | nil => simp [List.dropWhile, h]
  | cons a as ih =>
    by_cases ha : p a = true
    · simp [List.dropWhile, ha, ih]
    · simp [List.dropWhile, ha]

theorem splitAlphaTail_head (c : Char) (r : List Char) (h : isAlpha c = false) :
    (splitAlphaTail (c :: r)).1 = c :: (splitAlphaTail r).1 := by
  simp [splitAlphaTail, dropWhile_append_singleton _ _ _ h]

theorem rowValue_at (row : Row) (r : List Char) :
    rowValue row ('@' :: r) = none ∨ ∃ r', rowValue row ('@' :: r) = some ('@' :: r') := by
  unfold rowValue
  by_cases hz : row.hasTzZ = true
  · simp only [hz, if_true]
    cases lookupTz (splitAlphaTail ('@' :: r)).2 with
    | none => left; rfl
    | some z =>
      right
      rw [splitAlphaTail_head '@' r (by decide)]
      exact ⟨(splitAlphaTail r).1 ++ (z.toList ++ if row.hasTime = true then [] else appendTimeValue.toList), by simp⟩
  · simp only [hz]
    right
    exact ⟨r ++ (if row.hasTime = true then [] else appendTimeValue.toList), by simp⟩

theorem attemptRow_at_none (row : Row) (hrow : headOk (parsePattern (rowPattern row)) = true) (r : List Char) (tz : Int) :
    attemptRow row ('@' :: r) tz = none := by
  unfold attemptRow
  rcases rowValue_at row r with h | ⟨r', h⟩
  · rw [h]
  · rw [h]
    simp [datetimeParseFromStr, strptime_at_none _ hrow]

theorem firstRow_none_of_all (rows : List Row) (v : List Char) (tz : Int)
    (h : ∀ row ∈ rows, attemptRow row v tz = none) : firstRow rows v tz = none := by
  induction rows with
  | nil => rfl
  | cons row rows ih =>
    simp only [firstRow, h row (by simp)]
    exact ih (fun x hx => h x (by simp [hx]))

/-- no pattern row parses a value that starts with `@` -/
theorem firstRow_at_none (r : List Char) (tz : Int) : firstRow cliFilterPatterns ('@' :: r) tz = none := by
  apply firstRow_none_of_all
  intro row hrow
  have := List.all_eq_true.mp rows_headOk row hrow
  exact attemptRow_at_none row this r tz

end S4V.Lemmas.CliRows
