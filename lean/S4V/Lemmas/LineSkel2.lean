/-
Lemmas for `S4V.Props.LineSkel2Spec`: the interpreter of the regenerated `find_line_in_block`
(`S4V.Model.LineSkel2` on `S4V.Gen.Lines2`) against the hand models. The proofs unfold every generated
section, so a source edit that regenerates a different statement breaks them. Core Lean only.
-/
import S4V.Lemmas.LineSkel
import S4V.Model.LineSkel2

set_option linter.unusedSimpArgs false
namespace S4V.Lemmas.LineSkel2
open S4V.Gen.Blocks S4V.Model.Lines S4V.Model.LinesCached S4V.Model.LineSkel S4V.Gen.Lines S4V.Lemmas.Lines
  S4V.Lemmas.Blocks S4V.Lemmas.LineSkel S4V.Model.LineSkel2 S4V.Gen.Lines2

open Lean.Parser.Tactic in
/-- unfold the generated program and both interpreters, with extra facts -/
local macro "ibs" "[" ts:simpLemma,* "]" : tactic =>
  `(tactic| simp only [S4V.Gen.Lines2.findLineInBlock, S4V.Gen.Lines2.prologue, S4V.Gen.Lines2.init, S4V.Gen.Lines2.partB1,
    S4V.Gen.Lines2.partA0, S4V.Gen.Lines2.asserts, S4V.Gen.Lines2.partA1, S4V.Gen.Lines2.partA2, S4V.Gen.Lines2.partD,
    List.cons_append, List.nil_append, execIBL, execIB, BExprIB.eval,
    execL, exec, Expr.eval, BExpr.eval, St.get, St.set, St.setFlag, St.getFlag, St.setBlk, St.getBlk, blockOf,
    Cmp.eval, CHARSZ, decide_eq_true_eq, Bool.false_eq_true, ↓reduceIte,
    S4V.Gen.Lines.checkStore, storeCheckG, lookupG, Model.Lines.partB1IB, Model.Lines.partAIB, liftIB,
    blockOffsetAtFileOffset_eq, blockIndexAtFileOffset_eq, Bool.not_true, Bool.not_false, Bool.true_and, Bool.false_and,
    Bool.and_true, Bool.and_false, not_true_eq_false, not_false_eq_true, ne_eq, Bool.xor_true, Bool.xor_false, Bool.true_xor, Bool.false_xor, $ts,*])

theorem split_eq (a b : Nat) :
    ((a == b) = true ∧ (a = b) = True) ∨ ((a == b) = false ∧ (a = b) = False) := by
  by_cases h : a = b
  · exact Or.inl ⟨by simpa using h, eq_true h⟩
  · exact Or.inr ⟨by simpa using h, eq_false h⟩

set_option hygiene false in
/-- parts A2 / D of the walk (newline A by the backward scan), for the facts in scope -/
local macro "ib_a2" : tactic => `(tactic| (
  rcases split_eq ((fo - 1) / bs) (fo / bs) with ⟨hbm, hbmp⟩ | ⟨hbm, hbmp⟩
  · ibs [hlru, h0, hgt, heq, hrd, hl1, hl2, hzb, hzp, hge, hmax, hB, hBp, hA, hA2, lruPutG_eq, ofPart, bne, hbm, hbmp]
    rw [scanBwdG_eq _ _ _ hbw]
    rcases hsb : scanBwd (blockAt d bs (fo / bs)) ((fo - 1) % bs) with _ | i
    all_goals (
      by_cases hb0' : (fo - 1) / bs = 0
      · have hb0 : ((fo - 1) / bs == 0) = true := by simpa using hb0'
        have hb0p := eq_true hb0'
        have hq0 : fo / bs = 0 := by have := of_eq_true hbmp; omega
        ibs [hlru, h0, hgt, heq, hrd, hl1, hl2, hzb, hzp, hge, hmax, hB, hBp, hA, hA2, lruPutG_eq, ofPart, bne, hbm, hbmp, hb0, hb0p]
        simp [ofPart, fileOffsetAtBlockOffsetIndex_eq, hq0, hzp, Nat.add_assoc]
      · have hb0 : ((fo - 1) / bs == 0) = false := by simpa using hb0'
        have hb0p := eq_false hb0'
        ibs [hlru, h0, hgt, heq, hrd, hl1, hl2, hzb, hzp, hge, hmax, hB, hBp, hA, hA2, lruPutG_eq, ofPart, bne, hbm, hbmp, hb0, hb0p]
        simp [ofPart, fileOffsetAtBlockOffsetIndex_eq, hzp, Nat.add_assoc])
  · ibs [hlru, h0, hgt, heq, hrd, hl1, hl2, hzb, hzp, hge, hmax, hB, hBp, hA, hA2, lruPutG_eq, ofPart, bne, hbm, hbmp]
    simp [ofPart, fileOffsetAtBlockOffsetIndex_eq, hzp]))

set_option hygiene false in
/-- the quick checks A1a / A1b, then A2 / D -/
local macro "ib_q" : tactic => `(tactic| (
  rcases Bool.eq_false_or_eq_true ((linesGet s.lines (fo - 1)).isSome) with hA | hA
  · ibs [hlru, h0, hgt, heq, hrd, hl1, hl2, hzb, hzp, hge, hmax, hB, hBp, hA, lruPutG_eq, ofPart, bne]
    simp [ofPart, fileOffsetAtBlockOffsetIndex_div_mod, hzp, hA]
  · rcases Bool.eq_false_or_eq_true ((getLinep s (fo - 1)).isSome) with hA2 | hA2
    · ibs [hlru, h0, hgt, heq, hrd, hl1, hl2, hzb, hzp, hge, hmax, hB, hBp, hA, hA2, lruPutG_eq, ofPart, bne]
      simp [ofPart, fileOffsetAtBlockOffsetIndex_div_mod, hzp, hA, hA2]
    · ib_a2))

/-- nothing cached, offset inside the file: the walk -/
theorem findLineInBlockG_walk (bs : Nat) (d : Bytes) (s : Store) (fo : Nat) (hbs : 1 ≤ bs) (hfo : fo < d.length)
    (hlru : lruGet s.lru fo = none) (hl1 : linesGet s.lines fo = none) (hl2 : getLinep s fo = none) :
    (findLineInBlockG bs d s fo).1 = (findLineInBlockCached bs d s fo).1 ∧
      (findLineInBlockG bs d s fo).2.1 = (findLineInBlockCached bs d s fo).2 := by
  have hn : 0 < d.length := by omega
  have hq := Nat.div_add_mod' fo bs
  have hr : fo % bs < bs := Nat.mod_lt _ (by omega)
  have hqlast : fo / bs ≤ blockOffsetLast d.length bs := by
    rw [le_blockOffsetLast_iff _ _ _ hbs hn]; omega
  have hlen := blockAt_length d bs (fo / bs)
  have hi : fo % bs < (blockAt d bs (fo / bs)).length := by rw [hlen]; omega
  have hfuel : (blockAt d bs (fo / bs)).length - fo % bs ≤ d.length + 1 := by rw [hlen]; omega
  have hrd : ¬ (fo / bs > blockOffsetLast d.length bs) := by omega
  have h0 : (d.length == 0) = false := by simpa using (by omega : d.length ≠ 0)
  have hgt : ¬ (fo > d.length) := by omega
  have heq : (fo == d.length) = false := by simpa using (by omega : fo ≠ d.length)
  have hnot : ¬ (d.length = 0 ∨ fo ≥ d.length) := by omega
  unfold findLineInBlockG runFindIB findLineInBlockCached
  simp only [hlru, hl1, hl2, hnot, ↓reduceIte]
  by_cases hz : fo = 0
  · subst hz
    have hzb : ((0 : Nat) == 0) = true := rfl
    ibs [hlru, h0, hgt, heq, hrd, hl1, hl2, hzb]
    rw [scanFwdG_eq _ _ _ hi hfuel]
    rcases hscan : scanFwd (blockAt d bs (0 / bs)) (0 % bs) with _ | j
    case' none => rcases split_eq (0 / bs) (blockOffsetLast d.length bs) with ⟨hB, hBp⟩ | ⟨hB, hBp⟩
    case' some => rcases split_eq (d.length - 1) (fileOffsetAtBlockOffsetIndex (0 / bs) bs j) with ⟨hB, hBp⟩ | ⟨hB, hBp⟩
    all_goals ibs [hlru, h0, hgt, heq, hrd, hl1, hl2, hzb, hB, hBp, lruPutG_eq, ofPart]
    all_goals simp [fileOffsetAtBlockOffsetIndex_eq]
  · have hzb : (fo == 0) = false := by simpa using hz
    have hzp := eq_false hz
    have hge : fo ≥ 1 := by omega
    have hmax : max fo 1 = fo := Nat.max_eq_left hge
    have hbw : (fo - 1) % bs < d.length + 1 := by have := Nat.mod_le (fo - 1) bs; omega
    ibs [hlru, h0, hgt, heq, hrd, hl1, hl2, hzb]
    rw [scanFwdG_eq _ _ _ hi hfuel]
    rcases hscan : scanFwd (blockAt d bs (fo / bs)) (fo % bs) with _ | j
    · rcases split_eq (fo / bs) (blockOffsetLast d.length bs) with ⟨hB, hBp⟩ | ⟨hB, hBp⟩
      · ib_q
      · -- partial line: the quick checks are skipped
        have hA := hzb
        have hA2 := hzb
        ib_a2
    · rcases split_eq (d.length - 1) (fileOffsetAtBlockOffsetIndex (fo / bs) bs j) with ⟨hB, hBp⟩ | ⟨hB, hBp⟩
      · ib_q
      · ib_q

/-- a cache knows `fo`, or `fo` is past the end: the first four cases of `findLineInBlockCached`; no block is read -/
theorem findLineInBlockG_nowalk (bs : Nat) (d : Bytes) (s : Store) (fo : Nat)
    (h : lruGet s.lru fo ≠ none ∨ d.length = 0 ∨ fo ≥ d.length ∨ linesGet s.lines fo ≠ none ∨ getLinep s fo ≠ none) :
    findLineInBlockG bs d s fo = ((findLineInBlockCached bs d s fo).1, (findLineInBlockCached bs d s fo).2, []) := by
  unfold findLineInBlockG runFindIB findLineInBlockCached
  rcases hl : lruGet s.lru fo with _ | r
  · by_cases hd0 : d.length = 0
    · have h0 : (d.length == 0) = true := by simpa using hd0
      ibs [hl, h0, hd0]
      simp
    · have h0 : (d.length == 0) = false := by simpa using hd0
      by_cases hgt : fo > d.length
      · ibs [hl, h0, hgt]
        simp [show fo ≥ d.length by omega]
      · by_cases heq' : fo = d.length
        · have heq : (fo == d.length) = true := by simpa using heq'
          ibs [hl, h0, hgt, heq]
          simp [show fo ≥ d.length by omega]
        · have heq : (fo == d.length) = false := by simpa using heq'
          have hnot : ¬ (d.length = 0 ∨ fo ≥ d.length) := by omega
          rcases hl1 : linesGet s.lines fo with _ | ⟨b, e⟩
          · rcases hl2 : getLinep s fo with _ | ⟨b, e⟩
            · exfalso
              rcases h with h | h | h | h | h
              · exact h hl
              · exact hd0 h
              · omega
              · exact h hl1
              · exact h hl2
            · ibs [hl, h0, hgt, heq, hl1, hl2, lruPutG_eq, hnot]
          · ibs [hl, h0, hgt, heq, hl1, lruPutG_eq, hnot]
  · ibs [hl]

/-- the regenerated `find_line_in_block` is `findLineInBlockCached`, for every store -/
theorem findLineInBlockG_eq (bs : Nat) (d : Bytes) (s : Store) (fo : Nat) (hbs : 1 ≤ bs) :
    (findLineInBlockG bs d s fo).1 = (findLineInBlockCached bs d s fo).1 ∧
      (findLineInBlockG bs d s fo).2.1 = (findLineInBlockCached bs d s fo).2 := by
  by_cases hw : lruGet s.lru fo ≠ none ∨ d.length = 0 ∨ fo ≥ d.length ∨ linesGet s.lines fo ≠ none ∨
      getLinep s fo ≠ none
  · rw [findLineInBlockG_nowalk bs d s fo hw]; exact ⟨rfl, rfl⟩
  · simp only [not_or, ne_eq, Decidable.not_not] at hw
    obtain ⟨hlru, hd0, hfo, hl, hg⟩ := hw
    exact findLineInBlockG_walk bs d s fo hbs (by omega) hlru hl hg

/-- with empty caches the hand model with caches answers what the cache-free walk answers -/
theorem findLineInBlockCached_empty (bs : Nat) (d : Bytes) (fo : Nat) :
    (findLineInBlockCached bs d empty fo).1 = liftIB bs (Model.Lines.findLineInBlock bs d fo) := by
  unfold findLineInBlockCached Model.Lines.findLineInBlock
  have h1 : lruGet empty.lru fo = none := rfl
  have h2 : linesGet empty.lines fo = none := rfl
  have h3 : getLinep empty fo = none := rfl
  have h4 : (linesGet empty.lines (fo - 1)).isSome = false := rfl
  have h5 : (getLinep empty (fo - 1)).isSome = false := rfl
  simp only [h1, h2, h3, h4, h5]
  by_cases hd : d.length = 0 ∨ fo ≥ d.length
  · simp only [hd, ↓reduceIte, liftIB]
  · simp only [hd, ↓reduceIte]
    by_cases hz : fo = 0
    · subst hz
      simp only [partAIB, liftIB, ↓reduceIte, true_or, blockOffsetAtFileOffset_eq, blockIndexAtFileOffset_eq]
      rcases hb : (partB1IB d bs (blockOffsetLast d.length bs) 0).1 <;> simp [liftIB]
    · simp [hz]

end S4V.Lemmas.LineSkel2
