/-
`messages`, `slPartA`, `slPartB`, `findSysline` over a well-formed line list.

Main results: `decomp` (a well-formed list is a head-less prefix followed by
blocks "timestamped line + head-less lines", and `messages` lists the blocks),
`findSysline_eq` (`findSysline ls fo` is the first message whose last byte is at
or after `fo`).
-/
import S4V.Lemmas.SyslBasic

namespace S4V.Lemmas.Syslines
open S4V.Model.Lines S4V.Model.Syslines S4V.Gen.Filter

/-- no line of `c` carries a timestamp -/
def Headless (c : List LineInfo) : Prop := ∀ x ∈ c, x.dt = none

/-- `R` is empty or begins with a timestamped line -/
def HeadFirst : List LineInfo → Prop
  | [] => True
  | h :: _ => ∃ t, h.dt = some t

theorem Headless.nil : Headless [] := by intro x hx; cases hx
theorem Headless.cons_iff {x : LineInfo} {c : List LineInfo} :
    Headless (x :: c) ↔ x.dt = none ∧ Headless c := by
  simp [Headless]
theorem Headless.append_iff {a b : List LineInfo} :
    Headless (a ++ b) ↔ Headless a ∧ Headless b := by
  simp [Headless]
  constructor
  · intro h; exact ⟨fun x hx => h x (Or.inl hx), fun x hx => h x (Or.inr hx)⟩
  · rintro ⟨h1, h2⟩ x (hx | hx)
    · exact h1 x hx
    · exact h2 x hx

theorem find_head_headless_append {A S : List LineInfo} (hA : Headless A) :
    (A ++ S).find? (fun l => l.dt.isSome) = S.find? (fun l => l.dt.isSome) := by
  induction A with
  | nil => rfl
  | cons x A ih =>
    obtain ⟨h1, h2⟩ := Headless.cons_iff.1 hA
    simp [h1, ih h2]

/-! ### `messages` -/

/-- messages are non-empty and consecutive from `s` -/
def MContig : Nat → List Sysl → Prop
  | _, [] => True
  | s, m :: r => m.beg = s ∧ m.beg ≤ m.fin ∧ MContig (m.fin + 1) r

/-- offset right after the messages -/
def mEnd : Nat → List Sysl → Nat
  | s, [] => s
  | _, m :: r => mEnd (m.fin + 1) r

@[simp] theorem MContig_nil (s : Nat) : MContig s [] := trivial
@[simp] theorem MContig_cons (s : Nat) (m : Sysl) (r : List Sysl) :
    MContig s (m :: r) ↔ m.beg = s ∧ m.beg ≤ m.fin ∧ MContig (m.fin + 1) r := Iff.rfl
@[simp] theorem mEnd_nil (s : Nat) : mEnd s [] = s := rfl
@[simp] theorem mEnd_cons (s : Nat) (m : Sysl) (r : List Sysl) :
    mEnd s (m :: r) = mEnd (m.fin + 1) r := rfl

theorem messagesAux_headless_none {A : List LineInfo} (hA : Headless A) (S : List LineInfo) :
    messagesAux (A ++ S) none = messagesAux S none := by
  induction A with
  | nil => rfl
  | cons x A ih =>
    obtain ⟨h1, h2⟩ := Headless.cons_iff.1 hA
    simp only [List.cons_append, messagesAux, h1]
    exact ih h2

theorem messagesAux_run {c : List LineInfo} (hc : Headless c) {R : List LineInfo}
    (hR : HeadFirst R) (s : Sysl) :
    messagesAux (c ++ R) (some s)
      = { s with fin := endOf (s.fin + 1) c - 1 } :: messagesAux R none := by
  induction c generalizing s with
  | nil =>
    cases R with
    | nil => simp [messagesAux]
    | cons h R' =>
      obtain ⟨t, ht⟩ := hR
      simp [messagesAux, ht]
  | cons x c ih =>
    obtain ⟨h1, h2⟩ := Headless.cons_iff.1 hc
    simp only [List.cons_append, messagesAux, h1]
    rw [ih h2]
    simp

/-- block view of a list that is empty or begins with a timestamped line: each
block is a timestamped line `h` plus head-less lines `c`; `Ms` are the messages -/
inductive Blocks : Nat → List LineInfo → List Sysl → Prop
  | nil (s : Nat) : Blocks s [] []
  | cons {s : Nat} {h : LineInfo} {t : Int} {c R : List LineInfo} {Ms : List Sysl} :
      h.dt = some t → Headless c → WFFrom s (h :: c) →
      Blocks (endOf s (h :: c)) R Ms →
      Blocks s (h :: (c ++ R)) (⟨h.beg, endOf s (h :: c) - 1, t⟩ :: Ms)

theorem Blocks.headFirst {s : Nat} {S : List LineInfo} {Ms : List Sysl} (h : Blocks s S Ms) :
    HeadFirst S := by
  cases h with
  | nil => trivial
  | cons ht _ _ _ => exact ⟨_, ht⟩

theorem Blocks.wf {s : Nat} {S : List LineInfo} {Ms : List Sysl} (h : Blocks s S Ms) :
    WFFrom s S := by
  induction h with
  | nil => trivial
  | @cons s h t c R Ms ht hc hw _ ih =>
    have : h :: (c ++ R) = (h :: c) ++ R := rfl
    rw [this, WFFrom_append]
    exact ⟨hw, ih⟩

theorem Blocks.endOf_eq {s : Nat} {S : List LineInfo} {Ms : List Sysl} (h : Blocks s S Ms) :
    mEnd s Ms = endOf s S := by
  induction h with
  | nil => rfl
  | @cons s h t c R Ms ht hc hw _ ih =>
    have e : h :: (c ++ R) = (h :: c) ++ R := rfl
    rw [e, endOf_append, mEnd_cons, ← ih]
    have := lt_endOf_of_ne_nil hw (by simp)
    have e2 : endOf s (h :: c) - 1 + 1 = endOf s (h :: c) := by omega
    simp only [e2]

theorem Blocks.contig {s : Nat} {S : List LineInfo} {Ms : List Sysl} (h : Blocks s S Ms) :
    MContig s Ms := by
  induction h with
  | nil => trivial
  | @cons s h t c R Ms ht hc hw _ ih =>
    have h1 := lt_endOf_of_ne_nil hw (by simp)
    have e2 : endOf s (h :: c) - 1 + 1 = endOf s (h :: c) := by omega
    refine ⟨hw.1, ?_, ?_⟩
    · show h.beg ≤ endOf s (h :: c) - 1
      have := hw.1; omega
    · show MContig (endOf s (h :: c) - 1 + 1) Ms
      rw [e2]; exact ih

/-- a well-formed list is a head-less prefix followed by blocks -/
theorem decomp {s : Nat} {ls : List LineInfo} (h : WFFrom s ls) :
    ∃ A S, ls = A ++ S ∧ Headless A ∧ Blocks (endOf s A) S (messagesAux S none) := by
  induction ls generalizing s with
  | nil => exact ⟨[], [], rfl, Headless.nil, Blocks.nil _⟩
  | cons l r ih =>
    obtain ⟨h1, h2, h3⟩ := h
    obtain ⟨A, S, rfl, hA, hB⟩ := ih h3
    cases hdt : l.dt with
    | none =>
      exact ⟨l :: A, S, rfl, Headless.cons_iff.2 ⟨hdt, hA⟩, by simpa using hB⟩
    | some t =>
      refine ⟨[], l :: (A ++ S), rfl, Headless.nil, ?_⟩
      have hw : WFFrom s (l :: A) := ⟨h1, h2, ((WFFrom_append _ _ _).1 h3).1⟩
      have e : messagesAux (l :: (A ++ S)) none
          = ⟨l.beg, endOf s (l :: A) - 1, t⟩ :: messagesAux S none := by
        simp only [messagesAux, hdt]
        rw [messagesAux_run hA hB.headFirst]
        simp
      rw [e]
      exact Blocks.cons hdt hA hw (by simpa using hB)

theorem messages_eq_of_decomp {A S : List LineInfo} (hA : Headless A) :
    messages (A ++ S) = messagesAux S none := messagesAux_headless_none hA S

theorem Blocks.mem_bounds {s : Nat} {S : List LineInfo} {Ms : List Sysl} (h : Blocks s S Ms)
    {m : Sysl} (hm : m ∈ Ms) : s ≤ m.beg ∧ m.beg ≤ m.fin ∧ m.fin < endOf s S := by
  induction h with
  | nil => cases hm
  | @cons s h t c R Ms ht hc hw hB ih =>
    have e : h :: (c ++ R) = (h :: c) ++ R := rfl
    have h1 := lt_endOf_of_ne_nil hw (by simp)
    have h2 := le_endOf hB.wf
    rw [e, endOf_append]
    rcases List.mem_cons.1 hm with rfl | hm
    · have := hw.1
      simp only
      omega
    · have := ih hm
      omega

/-! ### `slPartA` -/

theorem wf_adjacent {X Y : List LineInfo} {a b : LineInfo} (h : WFLines (X ++ a :: b :: Y)) :
    b.beg = a.fin + 1 ∧ a.beg ≤ a.fin ∧ b.beg ≤ b.fin ∧ a.beg = endOf 0 X := by
  obtain ⟨_, h1, h2, h3, h4, _⟩ := (WFFrom_append 0 X _).1 h
  exact ⟨h3, h2, h4, h1⟩

theorem wf_mid {X Y : List LineInfo} {a : LineInfo} (h : WFLines (X ++ a :: Y)) :
    a.beg = endOf 0 X ∧ a.beg ≤ a.fin := by
  obtain ⟨_, h1, h2, _⟩ := (WFFrom_append 0 X _).1 h
  exact ⟨h1, h2⟩

/-- forward phase of part A (after offset 0 has been tried) -/
theorem partA_fwd {ls : List LineInfo} (hwf : WFLines ls) :
    ∀ (Q P : List LineInfo) (fuel : Nat), ls = P ++ Q → Q.length + 1 ≤ fuel →
      slPartA ls fuel (endOf 0 P) true (endOf 0 P) = Q.find? (fun l => l.dt.isSome) := by
  intro Q
  induction Q with
  | nil =>
    intro P fuel hls hf
    obtain ⟨f, rfl⟩ : ∃ f, fuel = f + 1 := ⟨fuel - 1, by omega⟩
    have : lineAt ls (endOf 0 P) = none := by
      apply lineAt_none hwf
      rw [fileSz_eq_endOf, hls]; simp
    simp [slPartA, this]
  | cons q Q ih =>
    intro P fuel hls hf
    obtain ⟨f, rfl⟩ : ∃ f, fuel = f + 1 := ⟨fuel - 1, by simp at hf; omega⟩
    subst hls
    obtain ⟨hb, hbf⟩ := wf_mid hwf
    have hl : lineAt (P ++ q :: Q) (endOf 0 P) = some q := lineAt_mid hwf (by omega) (by omega)
    simp only [slPartA, hl]
    cases hdt : q.dt with
    | some t => simp [hdt]
    | none =>
      have hmax : max (endOf 0 P) (q.fin + 1) = q.fin + 1 := by omega
      simp only [if_true, hmax, List.find?_cons, hdt, Option.isSome_none]
      have := ih (P ++ [q]) f (by simp) (by simp at hf; omega)
      rw [endOf_append] at this
      simpa using this

/-- offset 0 retried (`zeroTried = true`) in a head-less prefix -/
theorem partA_zero_true {ls : List LineInfo} (hwf : WFLines ls) (P Q : List LineInfo)
    (hls : ls = P ++ Q) (hP : Headless P) (hne : P ≠ []) (fuel : Nat)
    (hf : Q.length + 2 ≤ fuel) :
    slPartA ls fuel 0 true (endOf 0 P) = Q.find? (fun l => l.dt.isSome) := by
  obtain ⟨f, rfl⟩ : ∃ f, fuel = f + 1 := ⟨fuel - 1, by omega⟩
  cases P with
  | nil => exact absurd rfl hne
  | cons p P' =>
    subst hls
    have hw : WFLines ([] ++ p :: (P' ++ Q)) := by simpa using hwf
    obtain ⟨hb, hbf⟩ := wf_mid hw
    simp at hb
    have hl : lineAt (p :: P' ++ Q) 0 = some p := by
      have := lineAt_mid hw (fo := 0) (by omega) (by omega)
      simpa using this
    have hdt : p.dt = none := hP p (by simp)
    have hle : p.fin + 1 ≤ endOf 0 (p :: P') := by
      have hwf' : WFFrom 0 ((p :: P') ++ Q) := hwf
      have h1 : WFFrom 0 (p :: P') := ((WFFrom_append 0 (p :: P') Q).1 hwf').1
      have := le_endOf h1.2.2
      simpa using this
    have hmax : max (endOf 0 (p :: P')) (p.fin + 1) = endOf 0 (p :: P') := by omega
    simp only [slPartA, hl, hdt, if_true, hmax]
    exact partA_fwd hwf Q (p :: P') f rfl (by omega)

/-- `fo` inside a timestamped line -/
theorem partA_head {ls : List LineInfo} (hwf : WFLines ls) {h : LineInfo} {t : Int}
    (hm : h ∈ ls) (ht : h.dt = some t) {fo : Nat} (h1 : h.beg ≤ fo) (h2 : fo ≤ h.fin)
    (fuel : Nat) (z : Bool) (M : Nat) : slPartA ls (fuel + 1) fo z M = some h := by
  have hl : lineAt ls fo = some h := (lineAt_some_iff hwf fo h).2 ⟨hm, h1, h2⟩
  simp [slPartA, hl, ht]

/-- backward walk from a head-less line of a block to the block's head -/
theorem partA_back_found {ls : List LineInfo} (hwf : WFLines ls) {h : LineInfo} {t : Int}
    (ht : h.dt = some t) :
    ∀ (c1r : List LineInfo) (l : LineInfo) (c2 X Y : List LineInfo) (fuel fo M : Nat),
      ls = X ++ h :: (c1r.reverse ++ l :: c2) ++ Y → Headless (l :: c1r) →
      l.beg ≤ fo → fo ≤ l.fin → c1r.length + 2 ≤ fuel →
      slPartA ls fuel fo false M = some h := by
  intro c1r
  induction c1r with
  | nil =>
    intro l c2 X Y fuel fo M hls hH h1 h2 hf
    obtain ⟨f, rfl⟩ : ∃ f, fuel = f + 2 := ⟨fuel - 2, by simp at hf; omega⟩
    have hmem : l ∈ ls := by subst hls; simp
    have hmemh : h ∈ ls := by subst hls; simp
    have hl : lineAt ls fo = some l := (lineAt_some_iff hwf fo l).2 ⟨hmem, h1, h2⟩
    have hdt : l.dt = none := hH l (by simp)
    have hadj : l.beg = h.fin + 1 ∧ h.beg ≤ h.fin := by
      have : WFLines (X ++ h :: l :: (c2 ++ Y)) := by rw [hls] at hwf; simpa using hwf
      have := wf_adjacent this
      omega
    rw [slPartA]
    simp only [hl, hdt]
    by_cases hb : l.beg > 1
    · simp only [Bool.false_eq_true, if_false, hb, if_true]
      exact partA_head hwf hmemh ht (by omega) (by omega) f false _
    · simp only [Bool.false_eq_true, if_false, hb]
      exact partA_head hwf hmemh ht (by omega) (by omega) f true _
  | cons p r ih =>
    intro l c2 X Y fuel fo M hls hH h1 h2 hf
    obtain ⟨f, rfl⟩ : ∃ f, fuel = f + 1 := ⟨fuel - 1, by simp at hf; omega⟩
    have hmem : l ∈ ls := by subst hls; simp
    have hl : lineAt ls fo = some l := (lineAt_some_iff hwf fo l).2 ⟨hmem, h1, h2⟩
    have hdt : l.dt = none := hH l (by simp)
    have hls' : ls = X ++ h :: (r.reverse ++ p :: (l :: c2)) ++ Y := by
      rw [hls]; simp
    have hadj : l.beg = p.fin + 1 ∧ p.beg ≤ p.fin ∧ 1 ≤ p.beg := by
      have e : ls = (X ++ h :: r.reverse) ++ p :: l :: (c2 ++ Y) := by rw [hls]; simp
      have hw := hwf; rw [e] at hw
      have h3 := wf_adjacent hw
      have hX : WFFrom 0 (X ++ h :: r.reverse) := ((WFFrom_append 0 _ _).1 hw).1
      have := lt_endOf_of_ne_nil hX (by simp)
      omega
    rw [slPartA]
    simp only [hl, hdt]
    have hb : l.beg > 1 := by omega
    simp only [Bool.false_eq_true, if_false, hb, if_true]
    apply ih p (l :: c2) X Y f (l.beg - 1) _ hls'
    · intro x hx
      exact hH x (by simp at hx ⊢; rcases hx with rfl | hx <;> simp [*])
    · omega
    · omega
    · simp at hf ⊢; omega

/-- backward walk inside the head-less prefix: ends at offset 0, then forward -/
theorem partA_back_none {ls : List LineInfo} (hwf : WFLines ls) :
    ∀ (P1r : List LineInfo) (l : LineInfo) (P2 Q : List LineInfo) (fuel fo M : Nat),
      ls = (P1r.reverse ++ l :: P2) ++ Q → Headless (P1r.reverse ++ l :: P2) →
      l.beg ≤ fo → fo ≤ l.fin →
      max M (l.fin + 1) = endOf 0 (P1r.reverse ++ l :: P2) →
      P1r.length + Q.length + 3 ≤ fuel →
      slPartA ls fuel fo false M = Q.find? (fun l => l.dt.isSome) := by
  intro P1r
  induction P1r with
  | nil =>
    intro l P2 Q fuel fo M hls hH h1 h2 hM hf
    obtain ⟨f, rfl⟩ : ∃ f, fuel = f + 1 := ⟨fuel - 1, by omega⟩
    have hmem : l ∈ ls := by subst hls; simp
    have hl : lineAt ls fo = some l := (lineAt_some_iff hwf fo l).2 ⟨hmem, h1, h2⟩
    have hdt : l.dt = none := hH l (by simp)
    have hb0 : l.beg = 0 := by
      have : WFLines ([] ++ l :: (P2 ++ Q)) := by rw [hls] at hwf; simpa using hwf
      have := wf_mid this
      simpa using this.1
    rw [slPartA]
    simp only [hl, hdt, hM]
    have hb : ¬ l.beg > 1 := by omega
    simp only [Bool.false_eq_true, if_false, hb]
    exact partA_zero_true hwf _ Q hls hH (by simp) f (by simp at hf; omega)
  | cons p r ih =>
    intro l P2 Q fuel fo M hls hH h1 h2 hM hf
    obtain ⟨f, rfl⟩ : ∃ f, fuel = f + 1 := ⟨fuel - 1, by omega⟩
    have hmem : l ∈ ls := by subst hls; simp
    have hl : lineAt ls fo = some l := (lineAt_some_iff hwf fo l).2 ⟨hmem, h1, h2⟩
    have hdt : l.dt = none := hH l (by simp)
    have e1 : (p :: r).reverse ++ l :: P2 = r.reverse ++ p :: (l :: P2) := by simp
    have hadj : l.beg = p.fin + 1 ∧ p.beg ≤ p.fin ∧ l.beg ≤ l.fin := by
      have e : ls = r.reverse ++ p :: l :: (P2 ++ Q) := by rw [hls]; simp
      have hw := hwf; rw [e] at hw
      have h3 := wf_adjacent hw
      omega
    rw [slPartA]
    simp only [hl, hdt, hM]
    by_cases hb : l.beg > 1
    · simp only [Bool.false_eq_true, if_false, hb, if_true]
      apply ih p (l :: P2) Q f (l.beg - 1) _ (by rw [hls, e1]) (by rw [← e1]; exact hH)
      · omega
      · omega
      · rw [← e1]; omega
      · simp at hf ⊢; omega
    · simp only [Bool.false_eq_true, if_false, hb]
      exact partA_zero_true hwf _ Q hls hH (by simp) f (by simp at hf; omega)

/-! ### `slPartB` -/

theorem partB_run {ls : List LineInfo} (hwf : WFLines ls) :
    ∀ (c X R : List LineInfo) (fuel fin : Nat), ls = X ++ c ++ R → Headless c → HeadFirst R →
      endOf 0 X = fin + 1 → c.length + 1 ≤ fuel →
      slPartB ls fuel (fin + 1) fin = endOf (fin + 1) c - 1 := by
  intro c
  induction c with
  | nil =>
    intro X R fuel fin hls hc hR hX hf
    obtain ⟨f, rfl⟩ : ∃ f, fuel = f + 1 := ⟨fuel - 1, by omega⟩
    cases R with
    | nil =>
      have : lineAt ls (fin + 1) = none := by
        apply lineAt_none hwf
        rw [fileSz_eq_endOf, hls]; simp [hX]
      simp [slPartB, this]
    | cons r R' =>
      obtain ⟨t, ht⟩ := hR
      have hw : WFLines (X ++ r :: R') := by rw [hls] at hwf; simpa using hwf
      obtain ⟨hb, hbf⟩ := wf_mid hw
      have hl : lineAt ls (fin + 1) = some r := by
        rw [hls]; simp only [List.append_nil]
        exact lineAt_mid hw (by omega) (by omega)
      simp [slPartB, hl, ht]
  | cons x c ih =>
    intro X R fuel fin hls hc hR hX hf
    obtain ⟨f, rfl⟩ : ∃ f, fuel = f + 1 := ⟨fuel - 1, by omega⟩
    obtain ⟨hx, hc'⟩ := Headless.cons_iff.1 hc
    have hw : WFLines (X ++ x :: (c ++ R)) := by rw [hls] at hwf; simpa using hwf
    obtain ⟨hb, hbf⟩ := wf_mid hw
    have hl : lineAt ls (fin + 1) = some x := by
      rw [hls]
      have := lineAt_mid hw (fo := fin + 1) (by omega) (by omega)
      simpa using this
    simp only [slPartB, hl, hx, endOf_cons]
    apply ih (X ++ [x]) R f x.fin (by rw [hls]; simp) hc' hR
    · rw [endOf_append]; simp
    · simp at hf; omega

/-! ### `findSysline` -/

/-- what `findSysline` computes: the first message whose last byte is at or after `fo` -/
def fsM (M : List Sysl) (fo : Nat) : S4V.Model.Syslines.Res :=
  match M.find? (fun m => fo ≤ m.fin) with
  | some m => .found (m.fin + 1) m
  | none => .done

theorem fsM_cons_le {m : Sysl} {Ms : List Sysl} {fo : Nat} (h : fo ≤ m.fin) :
    fsM (m :: Ms) fo = .found (m.fin + 1) m := by
  simp [fsM, h]

theorem fsM_cons_gt {m : Sysl} {Ms : List Sysl} {fo : Nat} (h : ¬ fo ≤ m.fin) :
    fsM (m :: Ms) fo = fsM Ms fo := by
  simp [fsM, h]

@[simp] theorem fsM_nil (fo : Nat) : fsM [] fo = .done := rfl

theorem length_le_of_append3 (X : List LineInfo) (h : LineInfo) (c R : List LineInfo) :
    (X ++ h :: (c ++ R)).length = X.length + 1 + c.length + R.length := by
  simp; omega

/-- `fo` inside the block `h :: c` -/
theorem findSysline_block {ls : List LineInfo} (hwf : WFLines ls) {X c R : List LineInfo}
    {h : LineInfo} {t : Int} (hls : ls = X ++ h :: (c ++ R)) (ht : h.dt = some t)
    (hc : Headless c) (hR : HeadFirst R) {fo : Nat} (h1 : h.beg ≤ fo)
    (h2 : fo < endOf h.beg (h :: c)) :
    findSysline ls fo
      = .found (endOf h.beg (h :: c) - 1 + 1) ⟨h.beg, endOf h.beg (h :: c) - 1, t⟩ := by
  have hw := hwf; rw [hls] at hw
  have hwhc : WFFrom h.beg (h :: c) := by
    have e : X ++ h :: (c ++ R) = X ++ ((h :: c) ++ R) := by simp
    rw [e] at hw
    have h3 := ((WFFrom_append 0 X _).1 hw).2
    have h4 := ((WFFrom_append _ (h :: c) R).1 h3).1
    have := h4.1
    rw [← this] at h4
    exact h4
  have hmemh : h ∈ ls := by rw [hls]; simp
  have hlen := length_le_of_append3 X h c R
  rw [← hls] at hlen
  -- part A
  have hA : slPartA ls (2 * ls.length + 2) fo false 0 = some h := by
    obtain ⟨l, hl, hb1, hb2⟩ := exists_line hwhc h1 h2
    rcases List.mem_cons.1 hl with rfl | hl
    · exact partA_head hwf hmemh ht hb1 hb2 _ false 0
    · obtain ⟨c1, c2, rfl⟩ := List.mem_iff_append.1 hl
      apply partA_back_found hwf ht c1.reverse l c2 X R _ fo 0
      · rw [hls]; simp
      · intro x hx
        apply hc x
        simp at hx ⊢
        rcases hx with rfl | hx <;> simp [*]
      · exact hb1
      · exact hb2
      · simp at hlen ⊢; omega
  -- part B
  have hB : slPartB ls (ls.length + 1) (h.fin + 1) h.fin = endOf (h.fin + 1) c - 1 := by
    apply partB_run hwf c (X ++ [h]) R _ h.fin (by rw [hls]; simp) hc hR
    · rw [endOf_append]; simp
    · omega
  unfold findSysline
  simp only [hA, hB, ht, Option.getD_some, endOf_cons]

/-- `fo` before the first timestamped line -/
theorem findSysline_pre {ls : List LineInfo} (hwf : WFLines ls) {A S : List LineInfo}
    (hls : ls = A ++ S) (hA : Headless A) {fo : Nat} (hfo : fo < endOf 0 A) :
    (S = [] → findSysline ls fo = .done) ∧
    (∀ (h : LineInfo) (c R : List LineInfo) (t : Int), S = h :: (c ++ R) → h.dt = some t →
      Headless c → HeadFirst R →
      findSysline ls fo
        = .found (endOf h.beg (h :: c) - 1 + 1) ⟨h.beg, endOf h.beg (h :: c) - 1, t⟩) := by
  have hw := hwf; rw [hls] at hw
  have hwA : WFFrom 0 A := ((WFFrom_append 0 A S).1 hw).1
  obtain ⟨l, hl, hb1, hb2⟩ := exists_line hwA (Nat.zero_le fo) hfo
  obtain ⟨P1, P2, rfl⟩ := List.mem_iff_append.1 hl
  have hPA : slPartA ls (2 * ls.length + 2) fo false 0 = S.find? (fun l => l.dt.isSome) := by
    have := partA_back_none hwf P1.reverse l [] (P2 ++ S) (2 * ls.length + 2) fo 0
      (by rw [hls]; simp)
      (by
        intro x hx
        apply hA x
        simp at hx ⊢
        rcases hx with hx | rfl <;> simp [*])
      hb1 hb2
      (by simp [endOf_append])
      (by rw [hls]; simp; omega)
    rw [this]
    have hP2 : Headless P2 := fun x hx => hA x (by simp [hx])
    exact find_head_headless_append hP2
  constructor
  · intro hS
    unfold findSysline
    simp [hPA, hS]
  · intro h c R t hS ht hc hR
    have hfind : S.find? (fun l => l.dt.isSome) = some h := by
      rw [hS]; simp [ht]
    have hlen : ls.length = (P1 ++ l :: P2).length + 1 + c.length + R.length := by
      rw [hls, hS]; simp; omega
    have hB : slPartB ls (ls.length + 1) (h.fin + 1) h.fin = endOf (h.fin + 1) c - 1 := by
      apply partB_run hwf c ((P1 ++ l :: P2) ++ [h]) R _ h.fin (by rw [hls, hS]; simp) hc hR
      · rw [endOf_append]; simp
      · omega
    unfold findSysline
    simp only [hPA, hfind, hB, ht, Option.getD_some, endOf_cons]

theorem findSysline_beyond {ls : List LineInfo} (hwf : WFLines ls) {fo : Nat}
    (h : fileSz ls ≤ fo) : findSysline ls fo = .done := by
  have : lineAt ls fo = none := lineAt_none hwf h
  have e : 2 * ls.length + 2 = (2 * ls.length + 1) + 1 := by omega
  have hp : slPartA ls (2 * ls.length + 2) fo false 0 = none := by
    rw [e]; simp [slPartA, this]
  simp [findSysline, hp]

theorem findSysline_blocks {s : Nat} {S : List LineInfo} {Ms : List Sysl} (hB : Blocks s S Ms) :
    ∀ X : List LineInfo, WFLines (X ++ S) → endOf 0 X = s → ∀ fo, s ≤ fo →
      findSysline (X ++ S) fo = fsM Ms fo := by
  induction hB with
  | nil s =>
    intro X hwf hX fo hfo
    rw [findSysline_beyond hwf (by rw [fileSz_eq_endOf]; simpa [hX] using hfo)]
    rfl
  | @cons s h t c R Ms ht hc hw hB ih =>
    intro X hwf hX fo hfo
    have hs : h.beg = s := hw.1
    by_cases hlt : fo < endOf s (h :: c)
    · have := findSysline_block hwf rfl ht hc hB.headFirst (fo := fo) (by omega) (by rw [hs]; exact hlt)
      rw [this, hs]
      have : fo ≤ endOf s (h :: c) - 1 := by omega
      rw [fsM_cons_le (by exact this)]
    · have e : X ++ h :: (c ++ R) = (X ++ h :: c) ++ R := by simp
      have := ih (X ++ h :: c) (by rw [← e]; exact hwf) (by rw [endOf_append, hX]) fo (by omega)
      rw [e, this]
      have h1 := lt_endOf_of_ne_nil hw (by simp)
      have : ¬ fo ≤ endOf s (h :: c) - 1 := by omega
      rw [fsM_cons_gt (by exact this)]

/-- **`findSysline` = first message whose last byte is at or after `fo`** -/
theorem findSysline_eq {ls : List LineInfo} (hwf : WFLines ls) (fo : Nat) :
    findSysline ls fo = fsM (messages ls) fo := by
  obtain ⟨A, S, hls, hA, hB⟩ := decomp hwf
  have hM : messages ls = messagesAux S none := by rw [hls]; exact messages_eq_of_decomp hA
  rw [hM]
  by_cases hfo : endOf 0 A ≤ fo
  · rw [hls]
    exact findSysline_blocks hB A (by rw [← hls]; exact hwf) rfl fo hfo
  · obtain ⟨h1, h2⟩ := findSysline_pre hwf hls hA (fo := fo) (by omega)
    generalize hMs : messagesAux S none = Ms at hB
    cases hB with
    | nil => rw [h1 rfl]; rfl
    | @cons _ h t c R Ms' ht hc hw hB' =>
      rw [h2 h c R t rfl ht hc hB'.headFirst]
      have hs : h.beg = endOf 0 A := hw.1
      have h3 := lt_endOf_of_ne_nil hw (by simp)
      rw [hs]
      have : fo ≤ endOf (endOf 0 A) (h :: c) - 1 := by omega
      rw [fsM_cons_le (by exact this)]

end S4V.Lemmas.Syslines
