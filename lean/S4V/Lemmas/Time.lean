/-
Calendar lemmas over `S4V.Model.Time` (proleptic Gregorian calendar, Hinnant's
`days_from_civil` / `civil_from_days` over unbounded `Int`, floor division):

* `civil_roundtrip₁`  : `validDate y m d → civilFromDays (daysFromCivil y m d) = (y, m, d)` (all `Int` years)
* `civil_roundtrip₂`  : for every `z : Int` the triple `civilFromDays z` is a valid date whose
                         `daysFromCivil` is `z`
* `daysFromCivil_closed` : closed form `jan1 y + daysBeforeMonth y m + d - 1`
* `daysFromCivil_lt_iff_lex` / `daysFromCivil_strictMono` : strictly monotone in lexicographic `(y, m, d)`
* `daysFromCivil_epoch` : `daysFromCivil 1970 1 1 = 0`
* `epochSeconds_strictMono` : lexicographic monotonicity of `epochSeconds` at a fixed offset

All proofs are by `omega` after exposing the era / century / 4-year-cycle
decomposition; nothing is decided over a sample.
-/
import S4V.Model.Time

namespace S4V.Lemmas.Time
open S4V.Model.Time

/-! ### Leap years and month lengths as propositions -/

/-- `y` is a Gregorian leap year -/
def Leap (y : Int) : Prop := y % 4 = 0 ∧ (y % 100 ≠ 0 ∨ y % 400 = 0)

instance (y : Int) : Decidable (Leap y) := by unfold Leap; exact inferInstance

theorem isLeap_iff (y : Int) : isLeap y = true ↔ Leap y := by
  simp [isLeap, Leap]
  omega

theorem validDate_iff (y m d : Int) :
    validDate y m d = true ↔
      1 ≤ m ∧ m ≤ 12 ∧ 1 ≤ d ∧
        d ≤ (if m = 2 then (if Leap y then 29 else 28)
             else if m = 4 ∨ m = 6 ∨ m = 9 ∨ m = 11 then 30 else 31) := by
  unfold validDate daysInMonth
  have hl := isLeap_iff y
  by_cases hL : Leap y
  · have : isLeap y = true := hl.mpr hL
    simp [this, hL, and_assoc, or_assoc]
  · have : isLeap y = false := by
      cases h : isLeap y with
      | false => rfl
      | true => exact absurd (hl.mp h) hL
    simp [this, hL, and_assoc, or_assoc]

/-! ### Year-of-era from day-of-era (the core of `civil_from_days`) -/

/-- For year-of-era `yoe ∈ [0,399]` (March-based years) and day-of-year `doy ∈ [0,365]`
(`365` only when the March-based year `yoe` ends in a 29 February), Hinnant's formula
recovers `yoe` from the day-of-era, which lies in `[0, 146096]`. -/
theorem yoe_of_doe (yoe doy : Int) (h0 : 0 ≤ yoe) (h1 : yoe ≤ 399) (hd0 : 0 ≤ doy) (hd1 : doy ≤ 365)
    (hl : doy = 365 → (yoe + 1) % 4 = 0 ∧ ((yoe + 1) % 100 ≠ 0 ∨ yoe = 399)) :
    let doe := yoe * 365 + yoe / 4 - yoe / 100 + doy
    (doe - doe / 1460 + doe / 36524 - doe / 146096) / 365 = yoe ∧ 0 ≤ doe ∧ doe ≤ 146096 := by
  intro doe
  -- yoe = 100 c + 4 q + r
  obtain ⟨c, q, r, hy, hc0, hc3, hq0, hq24, hr0, hr3⟩ :
      ∃ c q r : Int, yoe = 100 * c + 4 * q + r ∧ 0 ≤ c ∧ c ≤ 3 ∧ 0 ≤ q ∧ q ≤ 24 ∧ 0 ≤ r ∧ r ≤ 3 :=
    ⟨yoe / 100, (yoe % 100) / 4, yoe % 4, by omega, by omega, by omega, by omega, by omega, by omega, by omega⟩
  have hdoe : doe = 36524 * c + 1461 * q + 365 * r + doy := by
    show yoe * 365 + yoe / 4 - yoe / 100 + doy = _
    omega
  have hl' : doy = 365 → r = 3 ∧ (q ≠ 24 ∨ c = 3) := by
    intro h; have := hl h; omega
  clear hl
  have hb : 0 ≤ doe ∧ doe ≤ 146096 := by omega
  refine ⟨?_, hb⟩
  generalize doe = D at *
  have he : D / 1460 = 25 * c + q ∨ D / 1460 = 25 * c + q + 1 := by omega
  have hf : D / 36524 = c ∨ D = 146096 := by omega
  have hg : D / 146096 = 0 ∨ D = 146096 := by omega
  rcases hg with hg | hg
  · have hf' : D / 36524 = c := by omega
    rw [hg, hf']
    rcases he with he | he <;> rw [he] <;> omega
  · subst hg
    omega

/-- Every day-of-era decomposes into (year-of-era, day-of-year). -/
theorem doe_decompose (doe : Int) (h0 : 0 ≤ doe) (h1 : doe ≤ 146096) :
    ∃ yoe doy : Int, 0 ≤ yoe ∧ yoe ≤ 399 ∧ 0 ≤ doy ∧ doy ≤ 365 ∧
      (doy = 365 → (yoe + 1) % 4 = 0 ∧ ((yoe + 1) % 100 ≠ 0 ∨ yoe = 399)) ∧
      doe = yoe * 365 + yoe / 4 - yoe / 100 + doy := by
  -- century
  obtain ⟨c, hc0, hc3, hc⟩ : ∃ c : Int, 0 ≤ c ∧ c ≤ 3 ∧ 36524 * c ≤ doe ∧ (doe < 36524 * (c + 1) ∨ c = 3) := by
    by_cases h : doe / 36524 ≤ 3
    · exact ⟨doe / 36524, by omega, h, by omega, by omega⟩
    · exact ⟨3, by omega, by omega, by omega, by omega⟩
  -- 4-year cycle within the century
  have hrem1 : 0 ≤ doe - 36524 * c ∧ doe - 36524 * c ≤ 36524 := by omega
  obtain ⟨q, hq0, hq24, hq⟩ : ∃ q : Int, 0 ≤ q ∧ q ≤ 24 ∧
      1461 * q ≤ doe - 36524 * c ∧ doe - 36524 * c < 1461 * (q + 1) :=
    ⟨(doe - 36524 * c) / 1461, by omega, by omega, by omega, by omega⟩
  -- year within the cycle
  obtain ⟨r, hr0, hr3, hr⟩ : ∃ r : Int, 0 ≤ r ∧ r ≤ 3 ∧
      365 * r ≤ doe - 36524 * c - 1461 * q ∧ (doe - 36524 * c - 1461 * q < 365 * (r + 1) ∨ r = 3) := by
    by_cases h : (doe - 36524 * c - 1461 * q) / 365 ≤ 3
    · exact ⟨(doe - 36524 * c - 1461 * q) / 365, by omega, h, by omega, by omega⟩
    · exact ⟨3, by omega, by omega, by omega, by omega⟩
  refine ⟨100 * c + 4 * q + r, doe - 36524 * c - 1461 * q - 365 * r, by omega, by omega, by omega, by omega, ?_, ?_⟩
  · intro h; omega
  · omega

/-! ### Month / day from the March-based day-of-year -/

/-- days before March-based month `mp` (0 = March … 11 = February) -/
theorem mp_table (mp : Int) (h0 : 0 ≤ mp) (h1 : mp ≤ 11) :
    (153 * mp + 2) / 5 =
      if mp = 0 then 0 else if mp = 1 then 31 else if mp = 2 then 61 else if mp = 3 then 92
      else if mp = 4 then 122 else if mp = 5 then 153 else if mp = 6 then 184 else if mp = 7 then 214
      else if mp = 8 then 245 else if mp = 9 then 275 else if mp = 10 then 306 else 337 := by
  have : mp = 0 ∨ mp = 1 ∨ mp = 2 ∨ mp = 3 ∨ mp = 4 ∨ mp = 5 ∨ mp = 6 ∨ mp = 7 ∨ mp = 8 ∨ mp = 9 ∨
      mp = 10 ∨ mp = 11 := by omega
  rcases this with h | h | h | h | h | h | h | h | h | h | h | h <;> subst h <;> decide

/-- length of March-based month `mp`, with February given its leap length -/
def mpLen (mp : Int) : Int :=
  if mp = 11 then 29 else if mp = 1 ∨ mp = 3 ∨ mp = 6 ∨ mp = 8 then 30 else 31

theorem mp_of_doy (mp d doy : Int) (h0 : 0 ≤ mp) (h1 : mp ≤ 11) (hd0 : 1 ≤ d) (hd1 : d ≤ mpLen mp)
    (hdoy : doy = (153 * mp + 2) / 5 + d - 1) :
    (5 * doy + 2) / 153 = mp ∧ 0 ≤ doy ∧ doy ≤ 365 ∧ (doy = 365 → mp = 11 ∧ d = 29) := by
  rw [mp_table mp h0 h1] at hdoy
  have : mp = 0 ∨ mp = 1 ∨ mp = 2 ∨ mp = 3 ∨ mp = 4 ∨ mp = 5 ∨ mp = 6 ∨ mp = 7 ∨ mp = 8 ∨ mp = 9 ∨
      mp = 10 ∨ mp = 11 := by omega
  rcases this with h | h | h | h | h | h | h | h | h | h | h | h <;> subst h <;>
    simp [mpLen] at hd1 hdoy <;> omega

theorem doy_decompose (doy : Int) (h0 : 0 ≤ doy) (h1 : doy ≤ 365) :
    let mp := (5 * doy + 2) / 153
    let d := doy - (153 * mp + 2) / 5 + 1
    0 ≤ mp ∧ mp ≤ 11 ∧ 1 ≤ d ∧ d ≤ mpLen mp ∧ (d = 29 → mp = 11 → doy = 365) := by
  intro mp d
  have hm0 : 0 ≤ mp := by show 0 ≤ (5 * doy + 2) / 153; omega
  have hm1 : mp ≤ 11 := by show (5 * doy + 2) / 153 ≤ 11; omega
  have ht := mp_table mp hm0 hm1
  have hdef : mp = (5 * doy + 2) / 153 := rfl
  have hd : d = doy - (153 * mp + 2) / 5 + 1 := rfl
  rw [ht] at hd
  clear_value mp d
  have : mp = 0 ∨ mp = 1 ∨ mp = 2 ∨ mp = 3 ∨ mp = 4 ∨ mp = 5 ∨ mp = 6 ∨ mp = 7 ∨ mp = 8 ∨ mp = 9 ∨
      mp = 10 ∨ mp = 11 := by omega
  rcases this with h | h | h | h | h | h | h | h | h | h | h | h <;> subst h <;>
    simp [mpLen] at hd ⊢ <;> omega

/-! ### The two round trips -/

/-- March-based month index of calendar month `m` -/
theorem mp_of_month (m : Int) (h0 : 1 ≤ m) (h1 : m ≤ 12) :
    (m + 9) % 12 = if m ≤ 2 then m + 9 else m - 3 := by
  split <;> omega

theorem len_of_valid (y m d : Int) (hm0 : 1 ≤ m) (hm1 : m ≤ 12)
    (hd1 : d ≤ (if m = 2 then (if Leap y then 29 else 28)
             else if m = 4 ∨ m = 6 ∨ m = 9 ∨ m = 11 then 30 else 31)) :
    d ≤ mpLen (if m ≤ 2 then m + 9 else m - 3) := by
  have : m = 1 ∨ m = 2 ∨ m = 3 ∨ m = 4 ∨ m = 5 ∨ m = 6 ∨ m = 7 ∨ m = 8 ∨ m = 9 ∨ m = 10 ∨
      m = 11 ∨ m = 12 := by omega
  rcases this with h | h | h | h | h | h | h | h | h | h | h | h <;> subst h <;>
    simp [mpLen] at hd1 ⊢ <;> (try split at hd1) <;> omega

theorem civil_roundtrip₁ (y m d : Int) (h : validDate y m d = true) :
    civilFromDays (daysFromCivil y m d) = (y, m, d) := by
  rw [validDate_iff] at h
  obtain ⟨hm0, hm1, hd0, hd1⟩ := h
  -- names for the intermediate quantities of `daysFromCivil`
  let y' : Int := if m ≤ 2 then y - 1 else y
  let era : Int := y' / 400
  let yoe : Int := y' - era * 400
  let mp : Int := (m + 9) % 12
  let doy : Int := (153 * mp + 2) / 5 + d - 1
  let doe : Int := yoe * 365 + yoe / 4 - yoe / 100 + doy
  have hdfc : daysFromCivil y m d = era * 146097 + doe - 719468 := rfl
  have hmp : mp = if m ≤ 2 then m + 9 else m - 3 := mp_of_month m hm0 hm1
  have hmp0 : 0 ≤ mp := by rw [hmp]; split <;> omega
  have hmp1 : mp ≤ 11 := by rw [hmp]; split <;> omega
  have hyoe0 : 0 ≤ yoe := by show 0 ≤ y' - y' / 400 * 400; omega
  have hyoe1 : yoe ≤ 399 := by show y' - y' / 400 * 400 ≤ 399; omega
  have hy' : y' = era * 400 + yoe := by show y' = y' / 400 * 400 + (y' - y' / 400 * 400); omega
  have hlen : d ≤ mpLen mp := by rw [hmp]; exact len_of_valid y m d hm0 hm1 hd1
  obtain ⟨hmpr, hdoy0, hdoy1, hdoy365⟩ := mp_of_doy mp d doy hmp0 hmp1 hd0 hlen rfl
  have hleap : doy = 365 → (yoe + 1) % 4 = 0 ∧ ((yoe + 1) % 100 ≠ 0 ∨ yoe = 399) := by
    intro h365
    obtain ⟨h11, h29⟩ := hdoy365 h365
    have hm2 : m = 2 := by rw [hmp] at h11; split at h11 <;> omega
    have hL : Leap y := by
      rw [if_pos hm2] at hd1
      by_cases hL : Leap y
      · exact hL
      · rw [if_neg hL] at hd1; omega
    have hyy : y = era * 400 + yoe + 1 := by
      have : y' = y - 1 := by show (if m ≤ 2 then y - 1 else y) = y - 1; rw [if_pos (by omega)]
      omega
    unfold Leap at hL
    omega
  obtain ⟨hyoe, hdoe0, hdoe1⟩ := yoe_of_doe yoe doy hyoe0 hyoe1 hdoy0 hdoy1 hleap
  -- now run `civilFromDays`
  have hz : daysFromCivil y m d + 719468 = era * 146097 + doe := by rw [hdfc]; omega
  have hera : (era * 146097 + doe) / 146097 = era := by omega
  have hdoy : doy - (153 * mp + 2) / 5 + 1 = d := by show (153 * mp + 2) / 5 + d - 1 - (153 * mp + 2) / 5 + 1 = d; omega
  unfold civilFromDays
  simp only [hz, hera]
  have hdoe' : era * 146097 + doe - era * 146097 = doe := by omega
  simp only [hdoe']
  change
    (if (if (5 * (doe - (365 * ((doe - doe / 1460 + doe / 36524 - doe / 146096) / 365) +
              (doe - doe / 1460 + doe / 36524 - doe / 146096) / 365 / 4 -
              (doe - doe / 1460 + doe / 36524 - doe / 146096) / 365 / 100)) + 2) / 153 < 10
          then (5 * (doe - (365 * ((doe - doe / 1460 + doe / 36524 - doe / 146096) / 365) +
              (doe - doe / 1460 + doe / 36524 - doe / 146096) / 365 / 4 -
              (doe - doe / 1460 + doe / 36524 - doe / 146096) / 365 / 100)) + 2) / 153 + 3
          else (5 * (doe - (365 * ((doe - doe / 1460 + doe / 36524 - doe / 146096) / 365) +
              (doe - doe / 1460 + doe / 36524 - doe / 146096) / 365 / 4 -
              (doe - doe / 1460 + doe / 36524 - doe / 146096) / 365 / 100)) + 2) / 153 - 9) ≤ 2
      then (doe - doe / 1460 + doe / 36524 - doe / 146096) / 365 + era * 400 + 1
      else (doe - doe / 1460 + doe / 36524 - doe / 146096) / 365 + era * 400,
     _, _) = (y, m, d)
  rw [hyoe]
  have hdoy' : doe - (365 * yoe + yoe / 4 - yoe / 100) = doy := by
    show yoe * 365 + yoe / 4 - yoe / 100 + doy - (365 * yoe + yoe / 4 - yoe / 100) = doy; omega
  simp only [hdoy', hmpr, hdoy]
  rw [hmp]
  by_cases h2 : m ≤ 2
  · have hy1 : y' = y - 1 := by show (if m ≤ 2 then y - 1 else y) = y - 1; rw [if_pos h2]
    have e1 : ¬ (m + 9 < 10) := by omega
    have e2 : m + 9 - 9 = m := by omega
    simp only [h2, if_true, e1, if_false, e2]
    ext <;> simp <;> omega
  · have hy1 : y' = y := by show (if m ≤ 2 then y - 1 else y) = y; rw [if_neg h2]
    have e1 : m - 3 < 10 := by omega
    have e2 : m - 3 + 3 = m := by omega
    simp only [h2, if_false, e1, if_true, e2]
    ext <;> simp <;> omega

theorem civil_roundtrip₂ (z : Int) :
    validDate (civilFromDays z).1 (civilFromDays z).2.1 (civilFromDays z).2.2 = true ∧
      daysFromCivil (civilFromDays z).1 (civilFromDays z).2.1 (civilFromDays z).2.2 = z := by
  -- decompose z
  let era : Int := (z + 719468) / 146097
  let doe : Int := z + 719468 - era * 146097
  have hdoe0 : 0 ≤ doe := by show 0 ≤ z + 719468 - (z + 719468) / 146097 * 146097; omega
  have hdoe1 : doe ≤ 146096 := by show z + 719468 - (z + 719468) / 146097 * 146097 ≤ 146096; omega
  have hz : z = era * 146097 + doe - 719468 := by
    show z = (z + 719468) / 146097 * 146097 + (z + 719468 - (z + 719468) / 146097 * 146097) - 719468
    omega
  obtain ⟨yoe, doy, hy0, hy1, hd0, hd1, hleap, hdoe⟩ := doe_decompose doe hdoe0 hdoe1
  obtain ⟨hyoe, -, -⟩ := yoe_of_doe yoe doy hy0 hy1 hd0 hd1 hleap
  rw [← hdoe] at hyoe
  obtain ⟨hmp0, hmp1, hdd0, hdd1, hd29⟩ := doy_decompose doy hd0 hd1
  -- the result of `civilFromDays`
  have hdoy' : doe - (365 * yoe + yoe / 4 - yoe / 100) = doy := by omega
  have hcfd : civilFromDays z =
      (if (if (5 * doy + 2) / 153 < 10 then (5 * doy + 2) / 153 + 3 else (5 * doy + 2) / 153 - 9) ≤ 2
        then yoe + era * 400 + 1 else yoe + era * 400,
       if (5 * doy + 2) / 153 < 10 then (5 * doy + 2) / 153 + 3 else (5 * doy + 2) / 153 - 9,
       doy - (153 * ((5 * doy + 2) / 153) + 2) / 5 + 1) := by
    rw [← hdoy', ← hyoe]
    rfl
  rw [hcfd]
  generalize hmp : (5 * doy + 2) / 153 = mp at *
  generalize hd : doy - (153 * mp + 2) / 5 + 1 = d at *
  simp only []
  have htab := mp_table mp hmp0 hmp1
  by_cases hlt : mp < 10
  · -- months March … December, civil year = yoe + era*400
    have hm2 : ¬ (mp + 3 ≤ 2) := by omega
    simp only [hlt, if_true, hm2, if_false]
    constructor
    · rw [validDate_iff]
      refine ⟨by omega, by omega, hdd0, ?_⟩
      have : mp = 0 ∨ mp = 1 ∨ mp = 2 ∨ mp = 3 ∨ mp = 4 ∨ mp = 5 ∨ mp = 6 ∨ mp = 7 ∨ mp = 8 ∨ mp = 9 := by
        omega
      rcases this with h | h | h | h | h | h | h | h | h | h <;> subst h <;>
        simp [mpLen] at hdd1 ⊢ <;> omega
    · unfold daysFromCivil
      simp only [hm2, if_false]
      have e1 : (mp + 3 + 9) % 12 = mp := by omega
      have e2 : (yoe + era * 400) / 400 = era := by omega
      have e3 : yoe + era * 400 - era * 400 = yoe := by omega
      simp only [e1, e2, e3]
      omega
  · -- January, February: civil year = yoe + era*400 + 1
    have hm2 : mp - 9 ≤ 2 := by omega
    simp only [hlt, if_false, hm2, if_true]
    constructor
    · rw [validDate_iff]
      refine ⟨by omega, by omega, hdd0, ?_⟩
      have : mp = 10 ∨ mp = 11 := by omega
      rcases this with h | h <;> subst h
      · simp [mpLen] at hdd1 ⊢; omega
      · simp [mpLen] at hdd1 ⊢
        by_cases hL : Leap (yoe + era * 400 + 1)
        · simp [hL]; omega
        · simp [hL]
          have : d ≠ 29 := by
            intro h29
            have h365 := hd29 h29 rfl
            have := hleap h365
            apply hL
            unfold Leap
            omega
          omega
    · unfold daysFromCivil
      simp only [hm2, if_true]
      have e1 : (mp - 9 + 9) % 12 = mp := by omega
      have e2 : (yoe + era * 400 + 1 - 1) / 400 = era := by omega
      have e3 : yoe + era * 400 + 1 - 1 - era * 400 = yoe := by omega
      simp only [e1, e2, e3]
      omega

/-! ### Closed form and monotonicity -/

/-- days from 1970-01-01 to 1 January of year `y` -/
def jan1 (y : Int) : Int := 365 * (y - 1) + (y - 1) / 4 - (y - 1) / 100 + (y - 1) / 400 - 719162

/-- days of year `y` before month `m` -/
def daysBeforeMonth (y m : Int) : Int :=
  (if m = 1 then 0 else if m = 2 then 31 else if m = 3 then 59 else if m = 4 then 90
   else if m = 5 then 120 else if m = 6 then 151 else if m = 7 then 181 else if m = 8 then 212
   else if m = 9 then 243 else if m = 10 then 273 else if m = 11 then 304 else 334)
  + (if 3 ≤ m ∧ Leap y then 1 else 0)

theorem jan1_succ (y : Int) : jan1 (y + 1) = jan1 y + 365 + (if Leap y then 1 else 0) := by
  unfold jan1
  by_cases h : Leap y <;> simp only [h, if_true, if_false] <;> unfold Leap at h <;> omega

theorem daysFromCivil_closed (y m d : Int) (hm0 : 1 ≤ m) (hm1 : m ≤ 12) :
    daysFromCivil y m d = jan1 y + daysBeforeMonth y m + d - 1 := by
  unfold daysFromCivil jan1 daysBeforeMonth Leap
  have : m = 1 ∨ m = 2 ∨ m = 3 ∨ m = 4 ∨ m = 5 ∨ m = 6 ∨ m = 7 ∨ m = 8 ∨ m = 9 ∨ m = 10 ∨
      m = 11 ∨ m = 12 := by omega
  rcases this with h | h | h | h | h | h | h | h | h | h | h | h <;> subst h <;>
    simp <;> (try split) <;> omega

theorem daysFromCivil_epoch : daysFromCivil 1970 1 1 = 0 := by decide

theorem jan1_mono {a b : Int} (h : a ≤ b) : jan1 a ≤ jan1 b := by
  unfold jan1
  by_cases h0 : a = b
  · subst h0; omega
  · omega

/-- within a year, a valid date's ordinal is below the year's length -/
theorem ordinal_bounds (y m d : Int) (h : validDate y m d = true) :
    0 ≤ daysBeforeMonth y m + d - 1 ∧
      daysBeforeMonth y m + d - 1 < 365 + (if Leap y then 1 else 0) := by
  rw [validDate_iff] at h
  obtain ⟨hm0, hm1, hd0, hd1⟩ := h
  unfold daysBeforeMonth
  have : m = 1 ∨ m = 2 ∨ m = 3 ∨ m = 4 ∨ m = 5 ∨ m = 6 ∨ m = 7 ∨ m = 8 ∨ m = 9 ∨ m = 10 ∨
      m = 11 ∨ m = 12 := by omega
  by_cases hL : Leap y <;>
    rcases this with h | h | h | h | h | h | h | h | h | h | h | h <;> subst h <;>
    simp [hL] at hd1 ⊢ <;> omega

/-- lexicographic order on `(y, m, d)` -/
def LexLt (y₁ m₁ d₁ y₂ m₂ d₂ : Int) : Prop :=
  y₁ < y₂ ∨ (y₁ = y₂ ∧ (m₁ < m₂ ∨ (m₁ = m₂ ∧ d₁ < d₂)))

/-- closed formula for the cumulative month table -/
theorem daysBeforeMonth_formula (y m : Int) (hm0 : 1 ≤ m) (hm1 : m ≤ 12) :
    daysBeforeMonth y m = (367 * m - 362) / 12 - (if m ≤ 2 then 0 else if Leap y then 1 else 2) := by
  unfold daysBeforeMonth
  have : m = 1 ∨ m = 2 ∨ m = 3 ∨ m = 4 ∨ m = 5 ∨ m = 6 ∨ m = 7 ∨ m = 8 ∨ m = 9 ∨ m = 10 ∨
      m = 11 ∨ m = 12 := by omega
  by_cases hL : Leap y <;>
    rcases this with h | h | h | h | h | h | h | h | h | h | h | h <;> subst h <;> simp [hL]

theorem daysBeforeMonth_mono (y a b : Int) (ha : 1 ≤ a) (hab : a ≤ b) (hb : b ≤ 12) :
    daysBeforeMonth y a ≤ daysBeforeMonth y b := by
  rw [daysBeforeMonth_formula y a ha (by omega), daysBeforeMonth_formula y b (by omega) hb]
  by_cases hL : Leap y <;> by_cases h1 : a ≤ 2 <;> by_cases h2 : b ≤ 2 <;>
    simp only [hL, h1, h2, if_true, if_false] <;> omega

theorem daysBeforeMonth_succ (y m d : Int) (h : validDate y m d = true) (hm : m ≤ 11) :
    daysBeforeMonth y m + d ≤ daysBeforeMonth y (m + 1) := by
  rw [validDate_iff] at h
  obtain ⟨hm0, hm1, hd0, hd1⟩ := h
  rw [daysBeforeMonth_formula y m hm0 hm1, daysBeforeMonth_formula y (m + 1) (by omega) (by omega)]
  have c1 : m = 1 ∨ m = 2 ∨ m = 3 ∨ m = 4 ∨ m = 5 ∨ m = 6 ∨ m = 7 ∨ m = 8 ∨ m = 9 ∨
      m = 10 ∨ m = 11 := by omega
  by_cases hL : Leap y <;>
    rcases c1 with h | h | h | h | h | h | h | h | h | h | h <;> subst h <;>
    simp [hL] at hd1 ⊢ <;> omega

theorem daysBeforeMonth_step (y m₁ m₂ d₁ : Int) (h₁ : validDate y m₁ d₁ = true)
    (hm : m₁ < m₂) (hm2 : m₂ ≤ 12) : daysBeforeMonth y m₁ + d₁ ≤ daysBeforeMonth y m₂ := by
  have v := (validDate_iff _ _ _).mp h₁
  have s1 := daysBeforeMonth_succ y m₁ d₁ h₁ (by omega)
  have s2 := daysBeforeMonth_mono y (m₁ + 1) m₂ (by omega) (by omega) hm2
  omega

/-- `daysFromCivil` is strictly monotone in lexicographic `(y, m, d)` over valid dates. -/
theorem daysFromCivil_strictMono (y₁ m₁ d₁ y₂ m₂ d₂ : Int)
    (h₁ : validDate y₁ m₁ d₁ = true) (h₂ : validDate y₂ m₂ d₂ = true)
    (hlt : LexLt y₁ m₁ d₁ y₂ m₂ d₂) : daysFromCivil y₁ m₁ d₁ < daysFromCivil y₂ m₂ d₂ := by
  have v₁ := (validDate_iff _ _ _).mp h₁
  have v₂ := (validDate_iff _ _ _).mp h₂
  rw [daysFromCivil_closed y₁ m₁ d₁ v₁.1 v₁.2.1, daysFromCivil_closed y₂ m₂ d₂ v₂.1 v₂.2.1]
  have o₁ := ordinal_bounds y₁ m₁ d₁ h₁
  have o₂ := ordinal_bounds y₂ m₂ d₂ h₂
  rcases hlt with hy | ⟨hy, hm | ⟨hm, hd⟩⟩
  · have hs := jan1_succ y₁
    have hmono := jan1_mono (show y₁ + 1 ≤ y₂ by omega)
    omega
  · subst hy
    have := daysBeforeMonth_step y₁ m₁ m₂ d₁ h₁ hm v₂.2.1
    omega
  · subst hy; subst hm; omega

/-- … and conversely the order of day numbers decides the lexicographic order. -/
theorem daysFromCivil_lt_iff_lex (y₁ m₁ d₁ y₂ m₂ d₂ : Int)
    (h₁ : validDate y₁ m₁ d₁ = true) (h₂ : validDate y₂ m₂ d₂ = true) :
    daysFromCivil y₁ m₁ d₁ < daysFromCivil y₂ m₂ d₂ ↔ LexLt y₁ m₁ d₁ y₂ m₂ d₂ := by
  constructor
  · intro hlt
    by_cases hl : LexLt y₁ m₁ d₁ y₂ m₂ d₂
    · exact hl
    · by_cases he : y₁ = y₂ ∧ m₁ = m₂ ∧ d₁ = d₂
      · obtain ⟨rfl, rfl, rfl⟩ := he; omega
      · have : LexLt y₂ m₂ d₂ y₁ m₁ d₁ := by unfold LexLt at *; omega
        have := daysFromCivil_strictMono _ _ _ _ _ _ h₂ h₁ this
        omega
  · exact daysFromCivil_strictMono _ _ _ _ _ _ h₁ h₂

theorem daysFromCivil_injective (y₁ m₁ d₁ y₂ m₂ d₂ : Int)
    (h₁ : validDate y₁ m₁ d₁ = true) (h₂ : validDate y₂ m₂ d₂ = true)
    (h : daysFromCivil y₁ m₁ d₁ = daysFromCivil y₂ m₂ d₂) : (y₁, m₁, d₁) = (y₂, m₂, d₂) := by
  rw [← civil_roundtrip₁ y₁ m₁ d₁ h₁, ← civil_roundtrip₁ y₂ m₂ d₂ h₂, h]

/-! ### `epochSeconds` -/

/-- a time of day `hh:mm:ss` with `ss ≤ 59` -/
def ValidTime (hh mm ss : Int) : Prop := 0 ≤ hh ∧ hh ≤ 23 ∧ 0 ≤ mm ∧ mm ≤ 59 ∧ 0 ≤ ss ∧ ss ≤ 59

/-- At a fixed offset `epochSeconds` is strictly monotone in the lexicographic order of
(date, hour, minute, second). -/
theorem epochSeconds_strictMono (y₁ m₁ d₁ hh₁ mm₁ ss₁ y₂ m₂ d₂ hh₂ mm₂ ss₂ off : Int)
    (h₁ : validDate y₁ m₁ d₁ = true) (h₂ : validDate y₂ m₂ d₂ = true)
    (t₁ : ValidTime hh₁ mm₁ ss₁) (t₂ : ValidTime hh₂ mm₂ ss₂)
    (hlt : LexLt y₁ m₁ d₁ y₂ m₂ d₂ ∨
      ((y₁, m₁, d₁) = (y₂, m₂, d₂) ∧ (hh₁ < hh₂ ∨ (hh₁ = hh₂ ∧ (mm₁ < mm₂ ∨ (mm₁ = mm₂ ∧ ss₁ < ss₂)))))) :
    epochSeconds y₁ m₁ d₁ hh₁ mm₁ ss₁ off < epochSeconds y₂ m₂ d₂ hh₂ mm₂ ss₂ off := by
  unfold epochSeconds
  unfold ValidTime at t₁ t₂
  rcases hlt with hl | ⟨he, ht⟩
  · have := daysFromCivil_strictMono _ _ _ _ _ _ h₁ h₂ hl
    omega
  · have e1 : y₁ = y₂ := congrArg Prod.fst he
    have e2 : m₁ = m₂ := congrArg (fun p => p.2.1) he
    have e3 : d₁ = d₂ := congrArg (fun p => p.2.2) he
    subst e1; subst e2; subst e3
    omega

/-- weak form, any seconds-of-day in `[0, 86400]` (admits the leap second `ss = 60`) -/
theorem epochSeconds_mono_days (y₁ m₁ d₁ y₂ m₂ d₂ s₁ s₂ : Int)
    (h₁ : validDate y₁ m₁ d₁ = true) (h₂ : validDate y₂ m₂ d₂ = true)
    (hs₁ : s₁ ≤ 86400) (hs₂ : 0 ≤ s₂) (hl : LexLt y₁ m₁ d₁ y₂ m₂ d₂) :
    daysFromCivil y₁ m₁ d₁ * 86400 + s₁ ≤ daysFromCivil y₂ m₂ d₂ * 86400 + s₂ := by
  have := daysFromCivil_strictMono _ _ _ _ _ _ h₁ h₂ hl
  omega

end S4V.Lemmas.Time
