/-
C04, regex slice, stage 5 — FULLY AUTOMATIC catalogues for the rows of `DATETIME_PARSE_DATAS`.

`S4V.Lemmas.RegexRows.symEntriesOf` enumerates, from the generated AST of an item, every symbolic word the
item can consume (all literals / case forms / counts, the ASCII part of every class). Here the catalogue of
a whole row is derived from the generated AST with no per-row input:

* `pruneA qs A`   from right to left, keep of every item's catalogue exactly the entries for which the
                  symbolic re-run of the matcher (`am`) is DETERMINATE given what can follow (the first
                  bytes of the kept entries of the later items / the admissible tails `A`)
* `rowOkA_prune`  the pruned catalogue passes the check `rowOk` BY CONSTRUCTION (no per-row `decide` is
                  needed for soundness; the per-row kernel computation is the list of kept/total entry counts
                  `keptCounts`, which pins what the theorem covers and breaks when the pattern changes)
* `am_mono`       the symbolic run is monotone in the follow set (needed because the same catalogue serves
                  both "tail is empty" and "tail starts with a byte of the final class")
* `auto_end` / `auto_plain` (+ `_nohead`)   the row theorems: for EVERY selection of kept entries and
                  concrete words, `search` matches at 0, spans exactly the words and records `capsAt`;
                  heads `^`, `(^|[class])`, `([class]|^)` or none; ends `(?P<g>[class]|$)` or plain
-/
import S4V.Lemmas.RegexRows

namespace S4V.Lemmas.RegexAuto
open S4V.Model.Regex S4V.Lemmas.RegexStep S4V.Lemmas.RegexSym S4V.Lemmas.RegexRows

/-! ### monotonicity of the symbolic run in the follow set -/

/-- `b` refines `a`: a definite answer of `a` is also the answer of `b` -/
def RLe (a b : R) : Prop := a = .unk ∨ a = b

theorem inRanges_sub {F' F : Sym} (h : F' ⊆ F) {n : Nat} (hn : inRanges F' n = true) : inRanges F n = true := by
  simp only [inRanges, List.any_eq_true] at hn ⊢
  obtain ⟨x, hx, hp⟩ := hn
  exact ⟨x, h hx, hp⟩

theorem symHas_sub {F' F : Sym} (h : F' ⊆ F) {b : UInt8} (hb : symHas F' b = true) : symHas F b = true :=
  inRanges_sub h hb

theorem asciiOnly_sub {F' F : Sym} (h : F' ⊆ F) (ha : asciiOnly F = true) : asciiOnly F' = true := by
  simp only [asciiOnly, List.all_eq_true] at ha ⊢
  exact fun x hx => ha x (h hx)

theorem follFails_sub {F' F : Sym} (h : F' ⊆ F) {rs : List (Nat × Nat)} (hf : follFails F rs = true) :
    follFails F' rs = true := by
  simp only [follFails, Bool.and_eq_true, Bool.or_eq_true, List.all_eq_true] at hf ⊢
  refine ⟨fun n hn => ?_, ?_⟩
  · have := hf.1 n hn
    cases h1 : inRanges F' n with
    | false => simp
    | true => simpa [inRanges_sub h h1] using this
  · rcases hf.2 with h2 | h2
    · exact Or.inl (asciiOnly_sub h h2)
    · exact Or.inr h2

theorem amLit_mono {F' F : Sym} (h : F' ⊆ F) :
    ∀ (bs : List UInt8) (syms : List Sym), amLit F bs syms = .unk ∨ amLit F bs syms = amLit F' bs syms := by
  intro bs
  induction bs with
  | nil => intro syms; right; simp [amLit]
  | cons b bs ih =>
    intro syms
    cases syms with
    | nil =>
      simp only [amLit]
      cases hF : symHas F b with
      | true => left; simp
      | false =>
        right
        cases hF' : symHas F' b with
        | true => rw [symHas_sub h hF'] at hF; cases hF
        | false => rfl
    | cons s rest =>
      simp only [amLit]
      split
      · exact ih rest
      · right; rfl

theorem amRep_mono {body body' : Nat → List Sym → Caps → AK → R}
    (hb : ∀ pos rest caps (k k' : AK), (∀ p r c, RLe (k p r c) (k' p r c)) → RLe (body pos rest caps k) (body' pos rest caps k'))
    (bounded : Bool) (k k' : AK) (hk : ∀ p r c, RLe (k p r c) (k' p r c)) :
    ∀ (fuel need pos : Nat) (rest : List Sym) (caps : Caps),
      RLe (amRep body bounded fuel need pos rest caps k) (amRep body' bounded fuel need pos rest caps k') := by
  intro fuel
  induction fuel with
  | zero =>
    intro need pos rest caps
    simp only [amRep]
    cases bounded with
    | false => left; rfl
    | true =>
      simp only [↓reduceIte]
      split
      · exact hk _ _ _
      · right; rfl
  | succ f ih =>
    intro need pos rest caps
    simp only [amRep]
    split
    · have := hb pos rest caps (fun p r c => amRep body bounded f 0 p r c k) (fun p r c => amRep body' bounded f 0 p r c k')
        (fun p r c => ih 0 p r c)
      rcases this with hu | he
      · left; rw [hu]
      · rw [he]
        cases body' pos rest caps (fun p r c => amRep body' bounded f 0 p r c k') with
        | fail => exact hk _ _ _
        | unk => left; rfl
        | done => right; rfl
    · exact hb pos rest caps _ _ (fun p r c => ih (need - 1) p r c)

theorem am_mono {F' F : Sym} (h : F' ⊆ F) (a : Re) :
    ∀ (pos : Nat) (rest : List Sym) (caps : Caps) (k k' : AK), (∀ p r c, RLe (k p r c) (k' p r c)) →
      RLe (am F a pos rest caps k) (am F' a pos rest caps k') := by
  induction a with
  | eps => intro pos rest caps k k' hk; simpa [am] using hk pos rest caps
  | lit bs =>
    intro pos rest caps k k' hk
    simp only [am]
    rcases amLit_mono h bs rest with hu | he
    · left; rw [hu]
    · rw [he]
      cases amLit F' bs rest with
      | ok r => exact hk _ _ _
      | fail => right; rfl
      | unk => left; rfl
  | cls rs =>
    intro pos rest caps k k' hk
    cases rest with
    | nil =>
      simp only [am]
      cases hf : follFails F rs with
      | true => right; simp [follFails_sub h hf]
      | false => left; simp
    | cons s rest' =>
      simp only [am]
      split
      · exact hk _ _ _
      · split
        · right; rfl
        · left; rfl
  | cat a b iha ihb =>
    intro pos rest caps k k' hk
    simp only [am]
    exact iha pos rest caps _ _ (fun p r c => ihb p r c k k' hk)
  | alt a b iha ihb =>
    intro pos rest caps k k' hk
    simp only [am]
    rcases iha pos rest caps k k' hk with hu | he
    · left; rw [hu]
    · rw [he]
      cases am F' a pos rest caps k' with
      | fail => exact ihb pos rest caps k k' hk
      | unk => left; rfl
      | done => right; rfl
  | rep r lo hi ih =>
    intro pos rest caps k k' hk
    simp only [am]
    exact amRep_mono (fun pos rest caps k k' hk => ih pos rest caps k k' hk) _ k k' hk _ _ _ _ _
  | group i r ih =>
    intro pos rest caps k k' hk
    simp only [am]
    exact ih pos rest caps _ _ (fun p r' c => hk _ _ _)
  | bol => intro pos rest caps k k' hk; left; rfl
  | eol =>
    intro pos rest caps k k' hk
    cases rest with
    | nil =>
      simp only [am]
      cases hF : F.isEmpty with
      | false => left; simp
      | true =>
        have hFn : F = [] := by simpa using hF
        subst hFn
        have : F' = [] := List.subset_nil.mp h
        subst this
        simpa using hk pos [] caps
    | cons s rest' => right; rfl

theorem pieceOk_mono {F' F : Sym} (h : F' ⊆ F) {q : Piece} (hq : pieceOk F q = true) : pieceOk F' q = true := by
  simp only [pieceOk, List.all_eq_true, beq_iff_eq] at hq ⊢
  intro e he
  have h1 := hq e he
  rcases am_mono h q.item 0 e.1 [] (topK e.1.length e.2) (topK e.1.length e.2) (fun _ _ _ => Or.inr rfl) with hu | heq
  · rw [h1] at hu; cases hu
  · rw [← heq]; exact h1

theorem follow_mono {A' A : Sym} (h : A' ⊆ A) : ∀ qs : List Piece, follow qs A' ⊆ follow qs A := by
  intro qs
  induction qs with
  | nil => simpa [follow] using h
  | cons q qs ih =>
    simp only [follow]
    intro x hx
    rcases List.mem_append.mp hx with h1 | h1
    · exact List.mem_append_left _ h1
    · refine List.mem_append_right _ ?_
      by_cases hn : nullable q.dom = true
      · rw [if_pos hn] at h1 ⊢; exact ih h1
      · rw [if_neg hn] at h1; cases h1

/-! ### pruning a row's catalogues -/

def slotsOk (e : Entry) : Bool := e.2.all (fun c => decide (c.2.1 ≤ c.2.2) && decide (c.2.2 ≤ e.1.length))

/-- the symbolic run of `item` on the entry is determinate when followed by `F` -/
def entryOk (F : Sym) (item : Re) (e : Entry) : Bool :=
  am F item 0 e.1 [] (topK e.1.length e.2) == .done && slotsOk e

/-- from right to left: keep the determinate entries; `A` = what can follow the whole list -/
def pruneA : List Piece → Sym → List Piece
  | [], _ => []
  | q :: qs, A => ⟨q.item, q.dom.filter (entryOk (follow (pruneA qs A) A) q.item)⟩ :: pruneA qs A

def rowOkA : List Piece → Sym → Bool
  | [], _ => true
  | q :: qs, A => pieceOk (follow qs A) q && rowOkA qs A

theorem rowOkA_prune : ∀ (qs : List Piece) (A : Sym), rowOkA (pruneA qs A) A = true := by
  intro qs A
  induction qs with
  | nil => rfl
  | cons q qs ih =>
    simp only [pruneA, rowOkA, Bool.and_eq_true]
    refine ⟨?_, ih⟩
    simp only [pieceOk, List.all_eq_true, beq_iff_eq]
    intro e he
    have := (List.mem_filter.mp he).2
    simp only [entryOk, Bool.and_eq_true, beq_iff_eq] at this
    exact this.1

theorem slots_prune : ∀ (qs : List Piece) (A : Sym), rowSlotsOk (pruneA qs A) = true := by
  intro qs A
  induction qs with
  | nil => rfl
  | cons q qs ih =>
    simp only [rowSlotsOk, pruneA, List.all_cons, Bool.and_eq_true]
    refine ⟨?_, by simpa [rowSlotsOk] using ih⟩
    simp only [domSlotsOk, List.all_eq_true]
    intro e he
    have := (List.mem_filter.mp he).2
    simp only [entryOk, Bool.and_eq_true, slotsOk] at this
    exact List.all_eq_true.mp this.2

theorem items_prune : ∀ (qs : List Piece) (A : Sym), (pruneA qs A).map Piece.item = qs.map Piece.item := by
  intro qs A
  induction qs with
  | nil => rfl
  | cons q qs ih => simp [pruneA, ih]

theorem follow_append (qs ps : List Piece) (tF : Sym) : follow (qs ++ ps) tF = follow qs (follow ps tF) := by
  induction qs with
  | nil => rfl
  | cons q qs ih => simp [follow, ih]

theorem rowOk_append (qs ps : List Piece) (tF : Sym) :
    rowOk (qs ++ ps) tF = (rowOkA qs (follow ps tF) && rowOk ps tF) := by
  induction qs with
  | nil => simp [rowOkA]
  | cons q qs ih => simp [rowOk, rowOkA, ih, follow_append, Bool.and_assoc]

theorem rowOkA_mono {A' A : Sym} (h : A' ⊆ A) : ∀ qs : List Piece, rowOkA qs A = true → rowOkA qs A' = true := by
  intro qs
  induction qs with
  | nil => intro _; rfl
  | cons q qs ih =>
    simp only [rowOkA, Bool.and_eq_true]
    intro hq
    exact ⟨pieceOk_mono (follow_mono h qs) hq.1, ih hq.2⟩

theorem rowOkA_nil_right (qs : List Piece) (A : Sym) : rowOk qs A = rowOkA qs A := by
  have := rowOk_append qs [] A
  simpa [rowOk, follow] using this

/-! ### the derived catalogue of a list of items -/

/-- the classes of the greedy, variable-count repetitions an item can END with (`[[:blank:]]+`, the `\\.?` closing
every alternative of a day / month name, …) -/
def greedyTail : Re → List (List (Nat × Nat))
  | .rep (.cls rs) lo hi => if hi == some lo then [] else [rs]
  | .rep (.group _ a) _ _ => greedyTail a
  | .group _ a => greedyTail a
  | .cat _ b => greedyTail b
  | .alt a b => greedyTail a ++ greedyTail b
  | _ => []

/-- the entry starts with a byte the class can take -/
def startsIn (rs : List (Nat × Nat)) (e : Entry) : Bool :=
  match e.1 with
  | [] => false
  | s :: _ => (List.range 128).any (fun n => inRanges s n && inRanges rs n)

/-- the members of `s` outside every class of `prev` -/
def symMinus (s : Sym) (prev : List (List (Nat × Nat))) : Sym :=
  ((List.range 128).filter (fun n => inRanges s n && !prev.any (fun rs => inRanges rs n))).map (fun n => (n, n))

/-- restrict the first byte of an entry to what the greedy classes before it cannot take (unchanged when there is
no overlap; dropped when nothing remains) -/
def restrictFirst (prev : List (List (Nat × Nat))) (e : Entry) : Option Entry :=
  if prev.any (fun rs => startsIn rs e) then
    match e.1 with
    | [] => some e
    | s :: w => if (symMinus s prev).isEmpty then none else some (symMinus s prev :: w, e.2)
  else some e

/-- the derived catalogue of each item (`symEntriesOf`); GREEDY-FIRST policy: right after an item that can end
with a greedy variable-count repetition of a class (also across items that can be empty), words may not start with a member of the class
(the repetition takes that byte: `Jan  1` — the pad of ` 1` belongs to `[[:blank:]]+`, see
`C04_rfc3164_padded_day_full_false`) -/
def rawBodyAux : List (List (Nat × Nat)) → List Re → List Piece
  | _, [] => []
  | prev, it :: rest =>
    ⟨it, (symEntriesOf it).filterMap (restrictFirst prev)⟩ ::
      rawBodyAux ((greedyTail it).eraseDups ++
        (if (symEntriesOf it).any (fun e => e.1.isEmpty) then prev else [])) rest

def rawBody (items : List Re) : List Piece := rawBodyAux [] items

theorem rawBodyAux_items : ∀ (items : List Re) (prev : List (List (Nat × Nat))),
    (rawBodyAux prev items).map Piece.item = items := by
  intro items
  induction items with
  | nil => intro _; rfl
  | cons it rest ih => intro prev; simp [rawBodyAux, ih]

theorem rawBody_items (items : List Re) : (rawBody items).map Piece.item = items := rawBodyAux_items items []

/-- the final `(?P<g>[class]|$)` -/
def endItem (g : Nat) (rs : List (Nat × Nat)) : Re := .group g (.alt (.cls rs) .eol)
def endPiece (g : Nat) (rs : List (Nat × Nat)) (e : Bool) : Piece := ⟨endItem g rs, endDom g (asciiPart rs) e⟩
/-- first bytes of what follows the body of a row with a final group, when the tail is not empty -/
def endFollow (g : Nat) (rs : List (Nat × Nat)) : Sym := follow [endPiece g rs true] anyByte

/-- the catalogue of a row body followed by `(?P<g>[rs]|$)` -/
def bodyE (items : List Re) (g : Nat) (rs : List (Nat × Nat)) : List Piece := pruneA (rawBody items) (endFollow g rs)
/-- the catalogue of a row body followed by a tail that is empty or starts with a byte of `tF` -/
def bodyP (items : List Re) (tF : Sym) : List Piece := pruneA (rawBody items) tF

theorem follow_end_false (g : Nat) (rs : List (Nat × Nat)) : follow [endPiece g rs false] [] = [] := by
  simp [follow, endPiece, endDom, firsts, nullable]

theorem endPiece_false_ok (g : Nat) (rs : List (Nat × Nat)) : pieceOk [] (endPiece g rs false) = true := by
  simp [pieceOk, endPiece, endDom, endItem, am, follFails, asciiOnly, topK, inRanges]

theorem rowOk_bodyE (items : List Re) (g : Nat) (rs : List (Nat × Nat))
    (hT : pieceOk anyByte (endPiece g rs true) = true) (e : Bool) :
    rowOk (bodyE items g rs ++ [endPiece g rs e]) (tailSym e) = true := by
  rw [rowOk_append]
  cases e with
  | true =>
    simp only [Bool.and_eq_true]
    refine ⟨rowOkA_prune _ _, ?_⟩
    simpa [rowOk, follow, tailSym] using hT
  | false =>
    simp only [Bool.and_eq_true]
    refine ⟨?_, ?_⟩
    · have h0 : follow [endPiece g rs false] (tailSym false) = [] := by simpa [tailSym] using follow_end_false g rs
      rw [h0]
      exact rowOkA_mono (List.nil_subset _) _ (rowOkA_prune _ _)
    · simpa [rowOk, follow, tailSym] using endPiece_false_ok g rs

/-! ### heads -/

/-- `(?P<g>^|x)` at offset 0 -/
theorem head_softL (g : Nat) (x : Re) (line : List UInt8) :
    Step (.group g (.alt .bol x)) 0 line [] 0 line [(g, 0, 0)] :=
  step_group g (step_altL step_bol)

/-- `(?P<g>[rs]|^)` at offset 0, when the line cannot start with a member of the class -/
theorem head_softR (g : Nat) (rs : List (Nat × Nat)) {F : Sym} {line : List UInt8} (hF : follFails F rs = true)
    (hl : TailF F line) : Step (.group g (.alt (.cls rs) .bol)) 0 line [] 0 line [(g, 0, 0)] :=
  step_group g (step_altR (fun k => cls_follFails hl hF 0 [] k) step_bol)

/-! ### rows -/

theorem valid_append : ∀ {q1 q2 : List Piece} {s1 s2 : Sel}, Valid q1 s1 → Valid q2 s2 → Valid (q1 ++ q2) (s1 ++ s2) := by
  intro q1
  induction q1 with
  | nil =>
    intro q2 s1 s2 h1 h2
    cases s1 with
    | nil => simpa using h2
    | cons _ _ => exact absurd h1 (by simp [Valid])
  | cons q qs ih =>
    intro q2 s1 s2 h1 h2
    cases s1 with
    | nil => exact absurd h1 (by simp [Valid])
    | cons e t => exact ⟨h1.1, h1.2.1, ih h1.2.2 h2⟩

/-- a `Step` through `head` that consumes nothing, then the pieces -/
theorem search_head_row {re head : Re} {qs : List Piece} {tF : Sym} {c0 : Caps}
    (hre : re = .cat head (catL (qs.map Piece.item))) (hne : qs ≠ [])
    (hok : rowOk qs tF = true) {sel : Sel} (hv : Valid qs sel) {tail : List UInt8} (ht : TailF tF tail)
    (hh : Step head 0 (flat sel ++ tail) [] 0 (flat sel ++ tail) c0) :
    search re (flat sel ++ tail) = some ⟨0, (flat sel).length, capsAt 0 c0 sel⟩ := by
  have hs := row_step ht qs sel 0 c0 hne hok hv
  subst hre
  have := search_of_step (step_cat hh hs)
  simpa using this

theorem search_nohead_row {re : Re} {qs : List Piece} {tF : Sym}
    (hre : re = catL (qs.map Piece.item)) (hne : qs ≠ [])
    (hok : rowOk qs tF = true) {sel : Sel} (hv : Valid qs sel) {tail : List UInt8} (ht : TailF tF tail) :
    search re (flat sel ++ tail) = some ⟨0, (flat sel).length, capsAt 0 [] sel⟩ := by
  have hs := row_step ht qs sel 0 [] hne hok hv
  subst hre
  simpa using search_of_step hs

theorem valid_slots {qs : List Piece} {sel : Sel} (hs : rowSlotsOk qs = true) (hv : Valid qs sel) : SlotsIn sel :=
  allOK_slots (allOK_of_valid hs hv)

/-- what `Captures::get(g')` spans after the run: the word of the piece that recorded `g'`, else what the head recorded -/
theorem groupText_sel (g' : Nat) (c0 : Caps) (sel : Sel) (tail : List UInt8) (hs : SlotsIn sel) :
    groupText (flat sel ++ tail) (capsAt 0 c0 sel) g' =
      match selText g' sel with
      | some t => some t
      | none => groupText (flat sel ++ tail) c0 g' := by
  have := groupText_capsAt g' tail sel [] c0 hs
  simp only [List.nil_append, List.length_nil] at this
  exact this

theorem endEw_valid {g : Nat} {rs : List (Nat × Nat)} {tail : List UInt8} (ht : TailIn (asciiPart rs) tail) :
    Valid [endPiece g rs (!tail.isEmpty)] [endEw g (asciiPart rs) tail] := by
  cases tail with
  | nil => simp [Valid, endPiece, endDom, endEw, Conc]
  | cons x t =>
    have := ht x t rfl
    simp [Valid, endPiece, endDom, endEw, Conc, this]

theorem flat_endEw (sel : Sel) (g : Nat) (s : Sym) (tail : List UInt8) :
    flat (sel ++ [endEw g s tail]) ++ tail.drop (tailLen tail) = flat sel ++ tail := by
  rw [flat_append]
  simp only [flat, List.append_nil, List.append_assoc, endEw_word]

theorem flat_endEw_length (sel : Sel) (g : Nat) (s : Sym) (tail : List UInt8) :
    (flat (sel ++ [endEw g s tail])).length = (flat sel).length + tailLen tail := by
  rw [flat_append]
  cases tail <;> simp [flat, endEw, tailLen]

theorem tailF_drop (tail : List UInt8) : TailF (tailSym (!tail.isEmpty)) (tail.drop (tailLen tail)) := by
  cases tail with
  | nil => simpa [tailSym, tailLen] using tailF_nil
  | cons x t => simpa [tailSym, tailLen] using tailF_any t

/-- **rows `head body (?P<g>[rs]|$)`** (`head` = `^`, `(^|x)` or `([x]|^)`: a `Step` that consumes nothing) -/
theorem auto_end {re head : Re} {items : List Re} {g : Nat} {rs : List (Nat × Nat)} {c0 : Caps}
    (hre : re = .cat head (catL (items ++ [endItem g rs])))
    (hT : pieceOk anyByte (endPiece g rs true) = true)
    (sel : Sel) (hv : Valid (bodyE items g rs) sel) (tail : List UInt8) (ht : TailIn (asciiPart rs) tail)
    (hh : Step head 0 (flat sel ++ tail) [] 0 (flat sel ++ tail) c0) :
    search re (flat sel ++ tail) =
      some ⟨0, (flat sel).length + tailLen tail, capsAt 0 c0 (sel ++ [endEw g (asciiPart rs) tail])⟩ ∧
    ∀ g', groupText (flat sel ++ tail) (capsAt 0 c0 (sel ++ [endEw g (asciiPart rs) tail])) g' =
      match selText g' (sel ++ [endEw g (asciiPart rs) tail]) with
      | some t => some t
      | none => groupText (flat sel ++ tail) c0 g' := by
  let e := !tail.isEmpty
  have hv' : Valid (bodyE items g rs ++ [endPiece g rs e]) (sel ++ [endEw g (asciiPart rs) tail]) :=
    valid_append hv (endEw_valid ht)
  have hre' : re = .cat head (catL ((bodyE items g rs ++ [endPiece g rs e]).map Piece.item)) := by
    rw [hre]
    simp [bodyE, items_prune, rawBody_items, endPiece]
  have hf := flat_endEw sel g (asciiPart rs) tail
  have hs := search_head_row (c0 := c0) hre' (by simp) (rowOk_bodyE items g rs hT e) hv' (tailF_drop tail)
    (by rw [hf]; exact hh)
  rw [hf, flat_endEw_length] at hs
  refine ⟨hs, fun g' => ?_⟩
  have hsl : SlotsIn (sel ++ [endEw g (asciiPart rs) tail]) :=
    slotsIn_append (valid_slots (slots_prune _ _) hv) (slotsIn_endEw g (asciiPart rs) tail)
  have := groupText_sel g' c0 (sel ++ [endEw g (asciiPart rs) tail]) (tail.drop (tailLen tail)) hsl
  rwa [hf] at this

/-- **rows `body (?P<g>[rs]|$)`** (no anchor; the stamp at the start of the searched slice) -/
theorem auto_end_nohead {re : Re} {items : List Re} {g : Nat} {rs : List (Nat × Nat)}
    (hre : re = catL (items ++ [endItem g rs]))
    (hT : pieceOk anyByte (endPiece g rs true) = true)
    (sel : Sel) (hv : Valid (bodyE items g rs) sel) (tail : List UInt8) (ht : TailIn (asciiPart rs) tail) :
    search re (flat sel ++ tail) =
      some ⟨0, (flat sel).length + tailLen tail, capsAt 0 [] (sel ++ [endEw g (asciiPart rs) tail])⟩ ∧
    ∀ g', groupText (flat sel ++ tail) (capsAt 0 [] (sel ++ [endEw g (asciiPart rs) tail])) g' =
      selText g' (sel ++ [endEw g (asciiPart rs) tail]) := by
  let e := !tail.isEmpty
  have hv' : Valid (bodyE items g rs ++ [endPiece g rs e]) (sel ++ [endEw g (asciiPart rs) tail]) :=
    valid_append hv (endEw_valid ht)
  have hre' : re = catL ((bodyE items g rs ++ [endPiece g rs e]).map Piece.item) := by
    rw [hre]
    simp [bodyE, items_prune, rawBody_items, endPiece]
  have hf := flat_endEw sel g (asciiPart rs) tail
  have hs := search_nohead_row hre' (by simp) (rowOk_bodyE items g rs hT e) hv' (tailF_drop tail)
  rw [hf, flat_endEw_length] at hs
  refine ⟨hs, fun g' => ?_⟩
  have hsl : SlotsIn (sel ++ [endEw g (asciiPart rs) tail]) :=
    slotsIn_append (valid_slots (slots_prune _ _) hv) (slotsIn_endEw g (asciiPart rs) tail)
  have := groupText_row g' (sel ++ [endEw g (asciiPart rs) tail]) (tail.drop (tailLen tail)) hsl
  rwa [hf] at this

/-- **rows `head body`** without a final group: the tail is empty or starts with a byte of `tF` -/
theorem auto_plain {re head : Re} {items : List Re} {tF : Sym} {c0 : Caps}
    (hre : re = .cat head (catL items)) (hne : items ≠ [])
    (sel : Sel) (hv : Valid (bodyP items tF) sel) (tail : List UInt8) (ht : TailF tF tail)
    (hh : Step head 0 (flat sel ++ tail) [] 0 (flat sel ++ tail) c0) :
    search re (flat sel ++ tail) = some ⟨0, (flat sel).length, capsAt 0 c0 sel⟩ ∧
    ∀ g', groupText (flat sel ++ tail) (capsAt 0 c0 sel) g' =
      match selText g' sel with
      | some t => some t
      | none => groupText (flat sel ++ tail) c0 g' := by
  have hre' : re = .cat head (catL ((bodyP items tF).map Piece.item)) := by
    rw [hre]; simp [bodyP, items_prune, rawBody_items]
  have hne' : bodyP items tF ≠ [] := by
    intro h
    have := congrArg (List.map Piece.item) h
    simp [bodyP, items_prune, rawBody_items] at this
    exact hne this
  have hok : rowOk (bodyP items tF) tF = true := by rw [rowOkA_nil_right]; exact rowOkA_prune _ _
  exact ⟨search_head_row hre' hne' hok hv ht hh, fun g' => groupText_sel g' c0 sel tail (valid_slots (slots_prune _ _) hv)⟩

theorem auto_plain_nohead {re : Re} {items : List Re} {tF : Sym}
    (hre : re = catL items) (hne : items ≠ [])
    (sel : Sel) (hv : Valid (bodyP items tF) sel) (tail : List UInt8) (ht : TailF tF tail) :
    search re (flat sel ++ tail) = some ⟨0, (flat sel).length, capsAt 0 [] sel⟩ ∧
    ∀ g', groupText (flat sel ++ tail) (capsAt 0 [] sel) g' = selText g' sel := by
  have hre' : re = catL ((bodyP items tF).map Piece.item) := by
    rw [hre]; simp [bodyP, items_prune, rawBody_items]
  have hne' : bodyP items tF ≠ [] := by
    intro h
    have := congrArg (List.map Piece.item) h
    simp [bodyP, items_prune, rawBody_items] at this
    exact hne this
  have hok : rowOk (bodyP items tF) tF = true := by rw [rowOkA_nil_right]; exact rowOkA_prune _ _
  exact ⟨search_nohead_row hre' hne' hok hv ht, fun g' => groupText_row g' sel tail (valid_slots (slots_prune _ _) hv)⟩

/-! ### the first byte of a valid selection (for the `([class]|^)` head) -/

theorem tailF_sel {qs : List Piece} {sel : Sel} {tF : Sym} {tail : List UInt8} (hv : Valid qs sel) (ht : TailF tF tail) :
    TailF (follow qs tF) (flat sel ++ tail) := tailF_follow ht qs sel hv

theorem firsts_sub {d' d : List Entry} (h : d' ⊆ d) : firsts d' ⊆ firsts d := by
  intro x hx
  simp only [firsts, List.mem_flatMap] at hx ⊢
  obtain ⟨e, he, hxe⟩ := hx
  exact ⟨e, h he, hxe⟩

theorem nullable_sub {d' d : List Entry} (h : d' ⊆ d) (hn : nullable d' = true) : nullable d = true := by
  simp only [nullable, List.any_eq_true] at hn ⊢
  obtain ⟨e, he, hp⟩ := hn
  exact ⟨e, h he, hp⟩

/-- pruning only shrinks what can come first -/
theorem follow_prune_sub (A : Sym) : ∀ qs : List Piece, follow (pruneA qs A) A ⊆ follow qs A := by
  intro qs
  induction qs with
  | nil => exact fun _ h => h
  | cons q qs ih =>
    simp only [pruneA, follow]
    intro x hx
    rcases List.mem_append.mp hx with h1 | h1
    · exact List.mem_append_left _ (firsts_sub (fun _ h => (List.mem_filter.mp h).1) h1)
    · refine List.mem_append_right _ ?_
      by_cases hn : nullable (q.dom.filter (entryOk (follow (pruneA qs A) A) q.item)) = true
      · rw [if_pos hn] at h1
        rw [if_pos (nullable_sub (fun _ h => (List.mem_filter.mp h).1) hn)]
        exact ih h1
      · rw [if_neg hn] at h1; cases h1

theorem tailF_sub {F' F : Sym} (h : F' ⊆ F) {r : List UInt8} (hr : TailF F' r) : TailF F r :=
  fun x t e => symHas_sub h (hr x t e)

theorem tailF_endFollow {g : Nat} {rs : List (Nat × Nat)} {tail : List UInt8} (ht : TailIn (asciiPart rs) tail) :
    TailF (endFollow g rs) tail := by
  intro x t e
  have := ht x t e
  simpa [endFollow, follow, firsts, endPiece, endDom, nullable, symHas, inRanges_append] using this

/-- the first byte of a rendered line lies in the first bytes of the (unpruned) catalogue -/
theorem tailF_body_end {items : List Re} {g : Nat} {rs : List (Nat × Nat)} {sel : Sel} {tail : List UInt8}
    (hv : Valid (bodyE items g rs) sel) (ht : TailIn (asciiPart rs) tail) :
    TailF (follow (rawBody items) (endFollow g rs)) (flat sel ++ tail) :=
  tailF_sub (follow_prune_sub _ _) (tailF_follow (tailF_endFollow ht) _ sel hv)

theorem tailF_body_plain {items : List Re} {tF : Sym} {sel : Sel} {tail : List UInt8}
    (hv : Valid (bodyP items tF) sel) (ht : TailF tF tail) :
    TailF (follow (rawBody items) tF) (flat sel ++ tail) :=
  tailF_sub (follow_prune_sub _ _) (tailF_follow ht _ sel hv)

/-! ### reading a row's shape off the generated AST -/

/-- items after the head, without the final item -/
def midItems (re : Re) (skip : Nat) : List Re := ((itemsOf re).drop skip).dropLast

def endG (re : Re) : Nat × List (Nat × Nat) :=
  match (itemsOf re).getLast? with
  | some (.group g (.alt (.cls rs) .eol)) => (g, rs)
  | _ => (0, [])

/-- ASCII bytes outside the class, and every non-ASCII byte -/
def complSym (rs : List (Nat × Nat)) : Sym :=
  ((List.range 128).filter (fun n => !inRanges rs n)).map (fun n => (n, n)) ++ [(128, 255)]

/-- the admissible first bytes of the tail of a row without a final group: anything, unless the row ends
with an unbounded repetition of a class (then: anything the repetition cannot take) -/
def autoTail (re : Re) : Sym :=
  match (itemsOf re).getLast? with
  | some (.rep (.cls rs) _ none) => complSym rs
  | _ => anyByte

/-- (kept, total) entries per item: what the row theorem covers -/
def keptCounts (pruned : List Piece) : List (Nat × Nat) :=
  pruned.map (fun q => (q.dom.length, (symEntriesOf q.item).length))

/-! ### per-row wrappers: everything read off `re` -/

/-- the matcher's answer on a rendered line: match at 0 up to `stop`, slots `capsAt`, and `Captures::get(g)` =
the word of the piece that recorded group `g` (else what the head recorded: `(g, 0, 0)` for `(^|…)`) -/
def RowResult (re : Re) (line : List UInt8) (stop : Nat) (c0 : Caps) (sel : Sel) : Prop :=
  search re line = some ⟨0, stop, capsAt 0 c0 sel⟩ ∧
  ∀ g, groupText line (capsAt 0 c0 sel) g =
    match selText g sel with
    | some t => some t
    | none => groupText line c0 g

def rowBodyE (re : Re) (skip : Nat) : List Piece := bodyE (midItems re skip) (endG re).1 (endG re).2
def rowBodyP (re : Re) (skip : Nat) : List Piece := bodyP ((itemsOf re).drop skip) (autoTail re)
def rowEndSym (re : Re) : Sym := asciiPart (endG re).2
def rowEndEw (re : Re) (tail : List UInt8) : Entry × List UInt8 := endEw (endG re).1 (rowEndSym re) tail
def rowEndItem (re : Re) : Re := endItem (endG re).1 (endG re).2
def rowEndOk (re : Re) : Bool := pieceOk anyByte (endPiece (endG re).1 (endG re).2 true)

/-- `(group, other alternative, class)` of a head `(?P<g>^|x)` / `(?P<g>[class]|^)` -/
def headParts (re : Re) : Nat × Re × List (Nat × Nat) :=
  match itemsOf re with
  | (.group g (.alt .bol x)) :: _ => (g, x, [])
  | (.group g (.alt (.cls rs) .bol)) :: _ => (g, .eps, rs)
  | _ => (0, .eps, [])

def headL (re : Re) : Re := .group (headParts re).1 (.alt .bol (headParts re).2.1)
def headR (re : Re) : Re := .group (headParts re).1 (.alt (.cls (headParts re).2.2) .bol)
def headROk (re : Re) : Bool :=
  follFails (follow (rawBody (midItems re 1)) (endFollow (endG re).1 (endG re).2)) (headParts re).2.2

theorem groupText_nil (line : List UInt8) (g : Nat) : groupText line [] g = none := by simp [groupText, capGet]

theorem auto_bol_E {re : Re} (hre : re = .cat .bol (catL (midItems re 1 ++ [rowEndItem re]))) (hT : rowEndOk re = true)
    (sel : Sel) (hv : Valid (rowBodyE re 1) sel) (tail : List UInt8) (ht : TailIn (rowEndSym re) tail) :
    RowResult re (flat sel ++ tail) ((flat sel).length + tailLen tail) [] (sel ++ [rowEndEw re tail]) :=
  auto_end hre hT sel hv tail ht step_bol

theorem auto_softL_E {re : Re} (hre : re = .cat (headL re) (catL (midItems re 1 ++ [rowEndItem re]))) (hT : rowEndOk re = true)
    (sel : Sel) (hv : Valid (rowBodyE re 1) sel) (tail : List UInt8) (ht : TailIn (rowEndSym re) tail) :
    RowResult re (flat sel ++ tail) ((flat sel).length + tailLen tail) [((headParts re).1, 0, 0)] (sel ++ [rowEndEw re tail]) :=
  auto_end hre hT sel hv tail ht (head_softL _ _ _)

theorem auto_softR_E {re : Re} (hre : re = .cat (headR re) (catL (midItems re 1 ++ [rowEndItem re]))) (hT : rowEndOk re = true)
    (hF : headROk re = true)
    (sel : Sel) (hv : Valid (rowBodyE re 1) sel) (tail : List UInt8) (ht : TailIn (rowEndSym re) tail) :
    RowResult re (flat sel ++ tail) ((flat sel).length + tailLen tail) [((headParts re).1, 0, 0)] (sel ++ [rowEndEw re tail]) :=
  auto_end hre hT sel hv tail ht (head_softR _ _ hF (tailF_body_end hv ht))

theorem auto_none_E {re : Re} (hre : re = catL (midItems re 0 ++ [rowEndItem re])) (hT : rowEndOk re = true)
    (sel : Sel) (hv : Valid (rowBodyE re 0) sel) (tail : List UInt8) (ht : TailIn (rowEndSym re) tail) :
    RowResult re (flat sel ++ tail) ((flat sel).length + tailLen tail) [] (sel ++ [rowEndEw re tail]) := by
  obtain ⟨h1, h2⟩ := auto_end_nohead hre hT sel hv tail ht
  refine ⟨h1, fun g => ?_⟩
  show groupText (flat sel ++ tail) (capsAt 0 [] (sel ++ [endEw (endG re).1 (asciiPart (endG re).2) tail])) g = _
  rw [h2 g, groupText_nil]
  show _ = match selText g (sel ++ [endEw (endG re).1 (asciiPart (endG re).2) tail]) with | some t => some t | none => none
  cases selText g (sel ++ [endEw (endG re).1 (asciiPart (endG re).2) tail]) <;> rfl

theorem auto_bol_P {re : Re} (hre : re = .cat .bol (catL ((itemsOf re).drop 1))) (hne : (itemsOf re).drop 1 ≠ [])
    (sel : Sel) (hv : Valid (rowBodyP re 1) sel) (tail : List UInt8) (ht : TailF (autoTail re) tail) :
    RowResult re (flat sel ++ tail) (flat sel).length [] sel :=
  auto_plain hre hne sel hv tail ht step_bol

theorem auto_none_P {re : Re} (hre : re = catL ((itemsOf re).drop 0)) (hne : (itemsOf re).drop 0 ≠ [])
    (sel : Sel) (hv : Valid (rowBodyP re 0) sel) (tail : List UInt8) (ht : TailF (autoTail re) tail) :
    RowResult re (flat sel ++ tail) (flat sel).length [] sel := by
  obtain ⟨h1, h2⟩ := auto_plain_nohead hre hne sel hv tail ht
  refine ⟨h1, fun g => ?_⟩
  rw [h2 g, groupText_nil]
  cases selText g sel <;> rfl

/-- a line splits along the catalogues (the hypotheses of the row theorems are satisfiable on it) -/
def splitsL (body : List Piece) (line : List UInt8) : Bool :=
  match chooseSel body line with
  | some (sel, rest) => validB body sel && (flat sel ++ rest == line)
  | none => false

theorem valid_of_splitsL {body : List Piece} {line : List UInt8} (h : splitsL body line = true) :
    ∃ sel rest, Valid body sel ∧ flat sel ++ rest = line := by
  unfold splitsL at h
  split at h
  · next sel rest _ =>
    simp only [Bool.and_eq_true, beq_iff_eq] at h
    exact ⟨sel, rest, valid_of_validB h.1, h.2⟩
  · cases h

/-- the lowest concrete word of a symbolic word -/
def lowWord (w : List Sym) : List UInt8 := w.map (fun s => match s with | [] => 0 | r :: _ => UInt8.ofNat r.1)
/-- the first entry of every piece, with its lowest word: a canonical rendering -/
def firstSel (body : List Piece) : Sel := body.filterMap (fun q => q.dom.head?.map (fun e => (e, lowWord e.1)))
/-- the catalogues have at least one rendering -/
def inhabitedB (body : List Piece) : Bool := validB body (firstSel body)

/-- a digest of the whole catalogue (every range bound of every symbolic word, every slot): pins the exact catalogue
the row theorem is about, beyond the counts -/
def catDigest (body : List Piece) : Nat :=
  body.foldl (fun d q =>
    q.dom.foldl (fun d e =>
      let d := e.1.foldl (fun d s => s.foldl (fun d r => (d * 257 + r.1 * 131 + r.2 + 1) % 1000000007) ((d * 31 + 7) % 1000000007)) ((d * 31 + 5) % 1000000007)
      e.2.foldl (fun d c => (d * 263 + c.1 * 10007 + c.2.1 * 101 + c.2.2 + 3) % 1000000007) d)
      ((d * 31 + 3) % 1000000007)) 1

end S4V.Lemmas.RegexAuto
