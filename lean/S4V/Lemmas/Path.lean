/-
Lemmas about the hand model `S4V.Model.Path` used by the C16 property theorems.
Table facts are proved by `decide` over the whole generated tables and lifted.
-/
import S4V.Model.Path

namespace S4V.Lemmas.Path
open S4V.Model.Path S4V.Model.PathTypes S4V.Gen.PathTables

/-! ### Facts about the generated tables (all by `decide`) -/

def isCompress : Act → Bool
  | .compress _ => true
  | _ => false

theorem suffix_nil : lookup suffixTable [] = .nomatch := by decide

theorem nameTable_no_compress : ∀ r ∈ nameTable, isCompress r.2 = false := by decide

theorem suffixTable_compress_ne_normal : ∀ r ∈ suffixTable, r.2 ≠ .compress .normal := by decide

theorem suffixTable_keys : ∀ r ∈ suffixTable, ∀ b ∈ r.1, b ∉ junkCharsLead := by decide

theorem junkLead_eq : junkCharsLead = junkChars ++ [DOT] := by decide

theorem mem_junkLead {b : UInt8} : b ∈ junkCharsLead ↔ b ∈ junkChars ∨ b = DOT := by
  simp [junkLead_eq]

/-! ### `lookup` -/

theorem lookup_mem {tbl : List (Bytes × Act)} {k : Bytes} {a : Act}
    (h : lookup tbl k = a) (ha : a ≠ .nomatch) : (k, a) ∈ tbl := by
  unfold lookup at h
  split at h
  · next r hr =>
    have h1 := List.find?_some hr
    have h2 := List.mem_of_find?_eq_some hr
    simp only [beq_iff_eq] at h1
    subst h h1
    exact h2
  · exact absurd h.symm ha

theorem nameTable_lookup_not_compress (k : Bytes) (a : Arch) : lookup nameTable k ≠ .compress a := by
  intro h
  have := nameTable_no_compress _ (lookup_mem h (by simp))
  simp [isCompress] at this

theorem suffix_lookup_compress_ne_normal {k : Bytes} : lookup suffixTable k ≠ .compress .normal := by
  intro h
  exact suffixTable_compress_ne_normal _ (lookup_mem h (by simp)) rfl

theorem suffix_lookup_key {k : Bytes} {a : Act} (h : lookup suffixTable k = a) (ha : a ≠ .nomatch) :
    k ≠ [] ∧ ∀ b ∈ k, b ∉ junkCharsLead := by
  refine ⟨?_, suffixTable_keys _ (lookup_mem h ha)⟩
  rintro rfl
  exact ha (h ▸ suffix_nil)

/-! ### `splitLastDot` and the `Path` accessors -/

theorem splitLastDot_eq_none {n : Bytes} : splitLastDot n = none ↔ DOT ∉ n := by
  induction n with
  | nil => simp [splitLastDot]
  | cons b t ih =>
    unfold splitLastDot
    split
    · next h =>
      have : DOT ∈ t := by
        apply Classical.byContradiction; intro h2; rw [ih.mpr h2] at h; cases h
      simp [this]
    · next h =>
      have := ih.mp h
      by_cases hb : b = DOT
      · simp [hb]
      · simp [hb, this]; exact fun h => hb h.symm

theorem splitLastDot_append {a k : Bytes} (hk : DOT ∉ k) : splitLastDot (a ++ DOT :: k) = some (a, k) := by
  induction a with
  | nil => simp [splitLastDot, splitLastDot_eq_none.mpr hk]
  | cons b t ih => simp [splitLastDot, ih]

theorem splitLastDot_some {n bef aft : Bytes} (h : splitLastDot n = some (bef, aft)) :
    n = bef ++ DOT :: aft ∧ DOT ∉ aft := by
  induction n generalizing bef with
  | nil => simp [splitLastDot] at h
  | cons b t ih =>
    unfold splitLastDot at h
    split at h
    · next b' a' h' =>
      simp at h
      obtain ⟨rfl, rfl⟩ := h
      have := ih h'
      simp [this.2]
      exact this.1
    · next h' =>
      split at h
      · simp at h; obtain ⟨rfl, rfl⟩ := h; subst_vars; simp [splitLastDot_eq_none.mp h']
      · cases h

theorem fileName_eq_nil {n : Bytes} : fileName n = [] ↔ n = [] ∨ n = [DOT] ∨ n = [DOT, DOT] := by
  unfold fileName
  split
  · next h => simp [h]
  · next h => simp only [h, iff_false]; intro h2; exact h (Or.inl h2)

theorem fileName_of_ne {n : Bytes} (h : fileName n ≠ []) : fileName n = n := by
  unfold fileName at *
  split at h <;> simp_all

theorem fileName_sublist (n : Bytes) : (fileName n).Sublist n := by
  unfold fileName; split <;> simp

theorem append_dot_ne {a k : Bytes} (ha : a ≠ []) :
    a ++ DOT :: k ≠ [] ∧ a ++ DOT :: k ≠ [DOT] := by
  cases a with
  | nil => exact absurd rfl ha
  | cons b t => cases t <;> simp

theorem fileName_append_dot {a k : Bytes} (ha : a ≠ []) (hne : a ++ DOT :: k ≠ [DOT, DOT]) :
    fileName (a ++ DOT :: k) = a ++ DOT :: k := by
  apply fileName_of_ne
  rw [Ne, fileName_eq_nil]
  have := append_dot_ne (k := k) ha
  simp [this.1, this.2, hne]

theorem rsplit_append_dot {a k : Bytes} (ha : a ≠ []) (hk : DOT ∉ k) (hne : a ++ DOT :: k ≠ [DOT, DOT]) :
    rsplitFileAtDot (a ++ DOT :: k) = (some a, some k) := by
  unfold rsplitFileAtDot
  simp [hne, splitLastDot_append hk, ha]

theorem extension_append_dot {a k : Bytes} (ha : a ≠ []) (hk : DOT ∉ k) (hne : a ++ DOT :: k ≠ [DOT, DOT]) :
    extension (a ++ DOT :: k) = some k := by
  unfold extension
  simp [fileName_append_dot ha hne, rsplit_append_dot ha hk hne, (append_dot_ne ha).1]

theorem fileStem_append_dot {a k : Bytes} (ha : a ≠ []) (hk : DOT ∉ k) (hne : a ++ DOT :: k ≠ [DOT, DOT]) :
    fileStem (a ++ DOT :: k) = some a := by
  unfold fileStem
  simp [fileName_append_dot ha hne, rsplit_append_dot ha hk hne, (append_dot_ne ha).1]

theorem withExtensionEmpty_append_dot {a k : Bytes} (ha : a ≠ []) (hk : DOT ∉ k)
    (hne : a ++ DOT :: k ≠ [DOT, DOT]) : withExtensionEmpty (a ++ DOT :: k) = a := by
  unfold withExtensionEmpty
  simp [fileStem_append_dot ha hk hne]

/-- `a ++ "." ++ k` is not `".."` as soon as `k` is non-empty. -/
theorem append_dot_ne_dotdot {a k : Bytes} (ha : a ≠ []) (hk : k ≠ []) : a ++ DOT :: k ≠ [DOT, DOT] := by
  intro h
  have := congrArg List.length h
  cases a <;> cases k <;> simp at * ; omega

theorem extension_some {x aft : Bytes} (h : extension x = some aft) :
    ∃ bef, bef ≠ [] ∧ x = bef ++ DOT :: aft ∧ DOT ∉ aft ∧ x ≠ [DOT, DOT] := by
  unfold extension at h
  simp only at h
  split at h
  · cases h
  · next hf =>
    have hx := fileName_of_ne hf
    rw [hx] at h
    unfold rsplitFileAtDot at h
    by_cases hdd : x = [DOT, DOT]
    · simp [hdd] at h
    · simp only [hdd, if_false] at h
      cases hs : splitLastDot x with
      | none => simp [hs] at h
      | some p =>
        obtain ⟨bef, aft'⟩ := p
        simp only [hs] at h
        by_cases hb : bef = []
        · simp [hb] at h
        · simp [hb] at h
          subst h
          have := splitLastDot_some hs
          exact ⟨bef, hb, this.1, this.2, hdd⟩

theorem extension_none_of_not_mem {n : Bytes} (h : DOT ∉ n) : extension n = none := by
  cases hx : extension n with
  | none => rfl
  | some aft =>
    obtain ⟨bef, _, rfl, _⟩ := extension_some hx
    simp at h

/-! ### `toStr`, trimming -/

theorem toStr_sublist (b : Bytes) : (toStr b).Sublist b := by
  unfold toStr; split <;> simp

theorem toStr_eq (b : Bytes) : toStr b = b ∨ toStr b = [] := by
  unfold toStr; split <;> simp

theorem toStr_of_ne {b : Bytes} (h : toStr b ≠ []) : toStr b = b := by
  rcases toStr_eq b with h' | h'
  · exact h'
  · exact absurd h' h

theorem toStr_utf8 {b : Bytes} (h : isUtf8 b = true) : toStr b = b := by
  simp [toStr, h]

theorem trimStartIn_suffix (junk s : Bytes) : trimStartIn junk s <:+ s := by
  induction s with
  | nil => simp [trimStartIn]
  | cons b t ih =>
    unfold trimStartIn
    split
    · exact List.IsSuffix.trans ih (List.suffix_cons b t)
    · exact List.suffix_refl _

theorem trimEndIn_prefix (junk s : Bytes) : trimEndIn junk s <+: s := by
  unfold trimEndIn
  have := trimStartIn_suffix junk s.reverse
  rw [← List.reverse_prefix] at this
  simpa using this

/-! ### `cleanName` in two stages -/

/-- Trailing-junk stage of `cleanName`. -/
def stage1 (n : Bytes) : Option (Bytes × Bytes) :=
  let fn0 := fileName n
  let fname := toStr fn0
  if endsWithIn junkChars fname then
    let fname2 := trimEndIn junkChars fname
    if fname2 = [] ∨ fname2.all (· == DOT) then none
    else some (fname2, fileName fname2)
  else some (n, fn0)

/-- Leading-junk stage of `cleanName`. -/
def stage2 (clean fnm : Bytes) : Cleaned :=
  let s := toStr fnm
  if s ≠ [] ∧ s.all (· == DOT) then .early
  else
    let r2 : Option (Bytes × Bytes) :=
      if startsWithIn junkCharsLead s then
        let fname2 := trimStartIn junkCharsLead s
        if fname2 = [] then none
        else if fname2 ≠ (extension clean).getD [] then some (fname2, fileName fname2)
        else some (clean, fnm)
      else some (clean, fnm)
    match r2 with
    | none => .early
    | some (clean, fnm) => if fnm = [] then .early else .ok clean fnm

theorem cleanName_eq (n : Bytes) :
    cleanName n = match stage1 n with
      | none => .early
      | some (c, f) => stage2 c f := rfl

theorem cleanName_ok {n c f : Bytes} (h : cleanName n = .ok c f) :
    ∃ c1 f1, stage1 n = some (c1, f1) ∧ stage2 c1 f1 = .ok c f := by
  rw [cleanName_eq] at h
  split at h
  · cases h
  · next c1 f1 h1 => exact ⟨c1, f1, h1, h⟩

theorem stage1_spec {n c f : Bytes} (h : stage1 n = some (c, f)) : f = fileName c ∧ c.Sublist n := by
  unfold stage1 at h
  simp only at h
  split at h
  · split at h
    · cases h
    · simp only [Option.some.injEq, Prod.mk.injEq] at h
      obtain ⟨rfl, rfl⟩ := h
      refine ⟨rfl, ?_⟩
      exact ((trimEndIn_prefix _ _).sublist.trans (toStr_sublist _)).trans (fileName_sublist _)
  · simp only [Option.some.injEq, Prod.mk.injEq] at h
    obtain ⟨rfl, rfl⟩ := h
    exact ⟨rfl, List.Sublist.refl _⟩

theorem stage2_spec {c f c' f' : Bytes} (h : stage2 c f = .ok c' f') :
    f' ≠ [] ∧ ((c' = c ∧ f' = f) ∨
      (c' = trimStartIn junkCharsLead (toStr f) ∧ f' = fileName c' ∧
        startsWithIn junkCharsLead (toStr f) = true)) := by
  unfold stage2 at h
  simp only at h
  split at h
  · cases h
  · split at h
    · cases h
    · next c2 f2 h2 =>
      split at h
      · cases h
      · next hne =>
        simp only [Cleaned.ok.injEq] at h
        obtain ⟨rfl, rfl⟩ := h
        refine ⟨hne, ?_⟩
        split at h2
        · next hs =>
          split at h2
          · cases h2
          · split at h2
            · simp only [Option.some.injEq, Prod.mk.injEq] at h2
              obtain ⟨rfl, rfl⟩ := h2
              exact Or.inr ⟨rfl, rfl, hs⟩
            · simp only [Option.some.injEq, Prod.mk.injEq] at h2
              exact Or.inl ⟨h2.1.symm, h2.2.symm⟩
        · simp only [Option.some.injEq, Prod.mk.injEq] at h2
          exact Or.inl ⟨h2.1.symm, h2.2.symm⟩

theorem stage2_sublist {c f c' f' : Bytes} (h : stage2 c f = .ok c' f') (hf : f.Sublist c) :
    c'.Sublist c := by
  rcases (stage2_spec h).2 with ⟨rfl, _⟩ | ⟨rfl, _, _⟩
  · exact List.Sublist.refl _
  · exact ((trimStartIn_suffix _ _).sublist.trans (toStr_sublist _)).trans hf

/-- The cleaned path is a sublist of the name, and `fnm` is its `file_name`. -/
theorem cleanName_spec {n c f : Bytes} (h : cleanName n = .ok c f) :
    c.Sublist n ∧ f = fileName c ∧ f ≠ [] := by
  obtain ⟨c1, f1, h1, h2⟩ := cleanName_ok h
  obtain ⟨hf1, hc1⟩ := stage1_spec h1
  have hs := stage2_sublist h2 (hf1 ▸ fileName_sublist _)
  refine ⟨hs.trans hc1, ?_, (stage2_spec h2).1⟩
  rcases (stage2_spec h2).2 with ⟨rfl, rfl⟩ | ⟨_, h3, _⟩
  · exact hf1
  · exact h3

/-! ### One step of `classifyAux`, independent of `ua` / `fta` / fuel -/

/-- What one call of `pathbuf_to_filetype_impl` decides from the name alone. -/
inductive Step where
  | fallback                 -- `RET_FALLBACK_*`
  | kind (k : Kind)          -- a recognised type, with the current container
  | same                     -- recurse on `with_extension("")`, same container
  | arch (a : Arch)          -- recurse on `with_extension("")`, container `a`
  deriving DecidableEq, Repr

def actStep : Act → Step
  | .compress a => .arch a
  | .evtx => .kind .evtx
  | .journal => .kind .journal
  | .tarArchive => .kind .archiveTar
  | .text => .kind .text
  | .fixed t => .kind (.fixed t)
  | .nonlog => .fallback
  | .nomatch => .same

def nameStep (fnm : Bytes) : Step :=
  let nameS := asciiLower (toStr fnm)
  if nameS = [] then .fallback
  else match lookup nameTable nameS with
    | .nomatch => .kind .text
    | .compress _ => .fallback   -- unreachable (`nameTable_no_compress`)
    | act => actStep act

abbrev suffixOf (clean : Bytes) : Bytes := asciiLower (toStr ((extension clean).getD []))

def stepOf (clean fnm : Bytes) : Step :=
  match lookup suffixTable (suffixOf clean) with
  | .nomatch => if suffixOf clean ≠ [] then .same else nameStep fnm
  | act => actStep act

def step (n : Bytes) : Step :=
  match cleanName n with
  | .early => .fallback
  | .ok c f => stepOf c f

theorem classifyAux_succ (fuel : Nat) (n : Bytes) (ua : Bool) (fta : Arch) :
    classifyAux (fuel + 1) n ua fta =
      match step n with
      | .fallback => some (fallback ua fta)
      | .kind k => some ⟨k, fta⟩
      | .same => classifyAux fuel (withExtensionEmpty n) ua fta
      | .arch a => classifyAux fuel (withExtensionEmpty n) ua a := by
  rw [classifyAux]
  unfold step
  cases cleanName n with
  | early => rfl
  | ok c f =>
    simp only [stepOf]
    generalize lookup suffixTable _ = act
    cases act <;> simp only [actStep]
    split
    · rfl
    · simp only [nameStep]
      split
      · rfl
      · generalize h : lookup nameTable _ = act2
        cases act2 <;> simp only [actStep]
        exact absurd h (nameTable_lookup_not_compress _ _)

theorem nameStep_cases (f : Bytes) :
    nameStep f = .fallback ∨ ∃ k, nameStep f = .kind k ∧ k ≠ .unparsable := by
  unfold nameStep
  simp only
  split
  · exact Or.inl rfl
  · generalize lookup nameTable _ = act
    cases act <;> simp [actStep]

theorem nameStep_ne_same (f : Bytes) : nameStep f ≠ .same := by
  rcases nameStep_cases f with h | ⟨k, h, _⟩ <;> simp [h]

theorem nameStep_ne_arch (f : Bytes) (a : Arch) : nameStep f ≠ .arch a := by
  rcases nameStep_cases f with h | ⟨k, h, _⟩ <;> simp [h]

theorem stepOf_same {c f : Bytes} :
    stepOf c f = .same ↔ lookup suffixTable (suffixOf c) = .nomatch ∧ suffixOf c ≠ [] := by
  unfold stepOf
  generalize lookup suffixTable _ = act
  cases act <;> simp [actStep]
  by_cases h : suffixOf c = [] <;> simp [h, nameStep_ne_same]

theorem stepOf_arch {c f : Bytes} {a : Arch} :
    stepOf c f = .arch a ↔ lookup suffixTable (suffixOf c) = .compress a := by
  unfold stepOf
  generalize lookup suffixTable _ = act
  cases act <;> simp [actStep]
  by_cases h : suffixOf c = [] <;> simp [h, nameStep_ne_arch]

theorem stepOf_kind {c f : Bytes} {k : Kind} (h : stepOf c f = .kind k) : k ≠ .unparsable := by
  unfold stepOf at h
  generalize lookup suffixTable _ = act at h
  cases act <;> simp [actStep] at h <;> try (subst h; simp)
  by_cases h2 : suffixOf c = []
  · simp [h2] at h
    rcases nameStep_cases f with h' | ⟨k', h', hk⟩
    · simp [h'] at h
    · simp [h'] at h; subst h; exact hk
  · simp [h2] at h

/-- Both recursing steps require a non-empty suffix. -/
theorem stepOf_rec_suffix {c f : Bytes} (h : stepOf c f = .same ∨ ∃ a, stepOf c f = .arch a) :
    suffixOf c ≠ [] := by
  rcases h with h | ⟨a, h⟩
  · exact (stepOf_same.mp h).2
  · exact (suffix_lookup_key (stepOf_arch.mp h) (by simp)).1

theorem suffixOf_ne {c : Bytes} (h : suffixOf c ≠ []) : ∃ aft, extension c = some aft ∧ aft ≠ [] := by
  unfold suffixOf at h
  cases hx : extension c with
  | none => simp [hx, toStr, asciiLower, isUtf8] at h
  | some aft =>
    refine ⟨aft, rfl, ?_⟩
    rintro rfl
    simp [hx, toStr, asciiLower, isUtf8] at h

theorem mem_tail_of_extension {x aft : Bytes} (h : extension x = some aft) : DOT ∈ x.tail := by
  obtain ⟨bef, hb, rfl, _, _⟩ := extension_some h
  cases bef with
  | nil => exact absurd rfl hb
  | cons b t => simp

theorem split_of_mem_tail {n : Bytes} (h : DOT ∈ n.tail) :
    ∃ a k, a ≠ [] ∧ DOT ∉ k ∧ n = a ++ DOT :: k := by
  cases n with
  | nil => simp at h
  | cons b t =>
    simp only [List.tail_cons] at h
    cases hs : splitLastDot t with
    | none => exact absurd h (splitLastDot_eq_none.mp hs)
    | some p =>
      obtain ⟨bef, aft⟩ := p
      have := splitLastDot_some hs
      exact ⟨b :: bef, aft, by simp, this.2, by simp [this.1]⟩

theorem withExt_lt {n : Bytes} (h : DOT ∈ n.tail) (hne : n ≠ [DOT, DOT]) :
    (withExtensionEmpty n).length < n.length := by
  obtain ⟨a, k, ha, hk, rfl⟩ := split_of_mem_tail h
  rw [withExtensionEmpty_append_dot ha hk hne]
  simp

theorem cleanName_dotdot : cleanName [DOT, DOT] = .early := by decide

theorem step_rec_tail {n : Bytes} (h : step n = .same ∨ ∃ a, step n = .arch a) :
    DOT ∈ n.tail ∧ n ≠ [DOT, DOT] := by
  unfold step at h
  cases hc : cleanName n with
  | early => simp [hc] at h
  | ok c f =>
    simp only [hc] at h
    constructor
    · obtain ⟨aft, hx, _⟩ := suffixOf_ne (stepOf_rec_suffix h)
      have h1 := mem_tail_of_extension hx
      exact (cleanName_spec hc).1.tail.subset h1
    · rintro rfl
      rw [cleanName_dotdot] at hc
      cases hc

theorem step_rec_lt {n : Bytes} (h : step n = .same ∨ ∃ a, step n = .arch a) :
    (withExtensionEmpty n).length < n.length :=
  withExt_lt (step_rec_tail h).1 (step_rec_tail h).2

theorem step_kind {n : Bytes} {k : Kind} (h : step n = .kind k) : k ≠ .unparsable := by
  unfold step at h
  split at h
  · cases h
  · exact stepOf_kind h

theorem step_arch {n : Bytes} {a : Arch} (h : step n = .arch a) : a ≠ .normal := by
  unfold step at h
  split at h
  · cases h
  · rintro rfl
    exact suffix_lookup_compress_ne_normal (stepOf_arch.mp h)

/-! ### Termination and fuel -/

theorem classifyAux_isSome : ∀ (fuel : Nat) (n : Bytes) (ua : Bool) (fta : Arch),
    n.length < fuel → (classifyAux fuel n ua fta).isSome := by
  intro fuel
  induction fuel with
  | zero => intro n ua fta h; omega
  | succ fuel ih =>
    intro n ua fta h
    rw [classifyAux_succ]
    split
    · rfl
    · rfl
    · next hs =>
      have := step_rec_lt (Or.inl hs)
      exact ih _ _ _ (by omega)
    · next a hs =>
      have := step_rec_lt (Or.inr ⟨a, hs⟩)
      exact ih _ _ _ (by omega)

theorem classify_isSome (n : Bytes) (ua : Bool) : (classify n ua).isSome :=
  classifyAux_isSome _ _ _ _ (Nat.lt_succ_self _)

theorem classifyAux_fuel_eq : ∀ (f1 f2 : Nat) (n : Bytes) (ua : Bool) (fta : Arch),
    n.length < f1 → n.length < f2 → classifyAux f1 n ua fta = classifyAux f2 n ua fta := by
  intro f1
  induction f1 with
  | zero => intro f2 n ua fta h; omega
  | succ f1 ih =>
    intro f2 n ua fta h1 h2
    cases f2 with
    | zero => omega
    | succ f2 =>
      rw [classifyAux_succ, classifyAux_succ]
      split
      · rfl
      · rfl
      · next hs =>
        have := step_rec_lt (Or.inl hs)
        exact ih _ _ _ _ (by omega) (by omega)
      · next a hs =>
        have := step_rec_lt (Or.inr ⟨a, hs⟩)
        exact ih _ _ _ _ (by omega) (by omega)

theorem classifyAux_fuel (n : Bytes) (ua : Bool) (fta : Arch) (f : Nat) (h : n.length + 1 ≤ f) :
    classifyAux f n ua fta = classifyAux (n.length + 1) n ua fta :=
  classifyAux_fuel_eq _ _ _ _ _ (by omega) (by omega)

/-! ### `unparseable_are_text` -/

theorem classifyAux_true_ne_unparsable : ∀ (fuel : Nat) (n : Bytes) (fta : Arch) (r : Result),
    classifyAux fuel n true fta = some r → r.kind ≠ .unparsable := by
  intro fuel
  induction fuel with
  | zero => intro n fta r h; simp [classifyAux] at h
  | succ fuel ih =>
    intro n fta r h
    rw [classifyAux_succ] at h
    split at h
    · simp [fallback] at h; subst h; simp
    · next k hs => simp at h; subst h; exact step_kind hs
    · exact ih _ _ _ h
    · exact ih _ _ _ h

theorem classify_true_ne_unparsable (n : Bytes) (r : Result) (h : classify n true = some r) :
    r.kind ≠ .unparsable :=
  classifyAux_true_ne_unparsable _ _ _ _ h

theorem classifyAux_false_true : ∀ (fuel : Nat) (n : Bytes) (fta : Arch) (r : Result),
    classifyAux fuel n false fta = some r → r.kind ≠ .unparsable →
    classifyAux fuel n true fta = some r := by
  intro fuel
  induction fuel with
  | zero => intro n fta r h; simp [classifyAux] at h
  | succ fuel ih =>
    intro n fta r h hk
    rw [classifyAux_succ] at h ⊢
    split at h
    · simp [fallback] at h; subst h; simp at hk
    · exact h
    · exact ih _ _ _ h hk
    · exact ih _ _ _ h hk

theorem classify_false_true (n : Bytes) (r : Result) (h : classify n false = some r)
    (hk : r.kind ≠ .unparsable) : classify n true = some r :=
  classifyAux_false_true _ _ _ _ h hk

/-! ### The container argument -/

/-- Under a real container, the result either is `Unparsable` or carries a real container. -/
theorem classifyAux_arch_ne : ∀ (fuel : Nat) (n : Bytes) (ua : Bool) (a : Arch) (r : Result),
    a ≠ .normal → classifyAux fuel n ua a = some r → r.kind = .unparsable ∨ r.arch ≠ .normal := by
  intro fuel
  induction fuel with
  | zero => intro n ua a r _ h; simp [classifyAux] at h
  | succ fuel ih =>
    intro n ua a r ha h
    rw [classifyAux_succ] at h
    split at h
    · cases ua <;> simp [fallback] at h <;> subst h <;> simp [ha]
    · simp at h; subst h; exact Or.inr ha
    · exact ih _ _ _ _ ha h
    · next a' hs => exact ih _ _ _ _ (step_arch hs) h

/-- How the result under container `a` is obtained from the result without container. -/
def retag (a : Arch) (r : Result) : Result :=
  if r.kind = .unparsable ∨ r.arch ≠ .normal then r else ⟨r.kind, a⟩

theorem classifyAux_retag : ∀ (fuel : Nat) (n : Bytes) (ua : Bool) (a : Arch) (r : Result),
    classifyAux fuel n ua .normal = some r → classifyAux fuel n ua a = some (retag a r) := by
  intro fuel
  induction fuel with
  | zero => intro n ua a r h; simp [classifyAux] at h
  | succ fuel ih =>
    intro n ua a r h
    rw [classifyAux_succ] at h ⊢
    split at h
    · cases ua <;> simp [fallback] at h <;> subst h <;> simp [retag, fallback]
    · next k hs => simp at h; subst h; simp [retag, step_kind hs]
    · exact ih _ _ _ _ h
    · next a' hs =>
      rw [h]
      have := classifyAux_arch_ne _ _ _ _ _ (step_arch hs) h
      simp [retag, this]

/-! ### Computing `cleanName` -/

theorem trimStartIn_append (junk a b : Bytes) :
    trimStartIn junk (a ++ b) =
      if trimStartIn junk a = [] then trimStartIn junk b else trimStartIn junk a ++ b := by
  induction a with
  | nil => simp [trimStartIn]
  | cons x t ih =>
    simp only [List.cons_append, trimStartIn]
    split
    · exact ih
    · simp

theorem trimStartIn_of_head {junk k : Bytes} (h : startsWithIn junk k = false) :
    trimStartIn junk k = k := by
  cases k with
  | nil => rfl
  | cons b t => simp [startsWithIn] at h; simp [trimStartIn, h]

theorem startsWithIn_of_forall {junk k : Bytes} (h : ∀ b ∈ k, b ∉ junk) : startsWithIn junk k = false := by
  cases k with
  | nil => rfl
  | cons b t => simpa [startsWithIn] using h b (by simp)

theorem endsWithIn_append {junk a k : Bytes} (hk : k ≠ []) :
    endsWithIn junk (a ++ k) = endsWithIn junk k := by
  unfold endsWithIn
  rw [List.getLast?_append]
  cases h : k.getLast? with
  | none => simp at h; exact absurd h hk
  | some b => simp

theorem endsWithIn_of_forall {junk k : Bytes} (h : ∀ b ∈ k, b ∉ junk) : endsWithIn junk k = false := by
  unfold endsWithIn
  cases hl : k.getLast? with
  | none => rfl
  | some b => simpa using h b (List.mem_of_getLast? hl)

theorem stage2_keep {c f : Bytes} (hf : f ≠ [])
    (h1 : ¬ (toStr f ≠ [] ∧ (toStr f).all (· == DOT) = true))
    (h2 : startsWithIn junkCharsLead (toStr f) = false) : stage2 c f = .ok c f := by
  simp only [stage2, h1, h2, if_false, hf, Bool.false_eq_true]

theorem stage2_keep_ext {c f : Bytes} (hf : f ≠ [])
    (h1 : ¬ (toStr f ≠ [] ∧ (toStr f).all (· == DOT) = true))
    (h3 : trimStartIn junkCharsLead (toStr f) ≠ [])
    (h4 : trimStartIn junkCharsLead (toStr f) = (extension c).getD []) : stage2 c f = .ok c f := by
  simp only [stage2, h1, if_false]
  by_cases h2 : startsWithIn junkCharsLead (toStr f) = true
  · rw [h4] at h3
    simp [h2, h3, h4, hf]
  · simp [h2, hf]

theorem stage2_trim {c f : Bytes}
    (h1 : ¬ (toStr f ≠ [] ∧ (toStr f).all (· == DOT) = true))
    (h2 : startsWithIn junkCharsLead (toStr f) = true)
    (h3 : trimStartIn junkCharsLead (toStr f) ≠ [])
    (h4 : trimStartIn junkCharsLead (toStr f) ≠ (extension c).getD [])
    (h5 : fileName (trimStartIn junkCharsLead (toStr f)) ≠ []) :
    stage2 c f = .ok (trimStartIn junkCharsLead (toStr f)) (fileName (trimStartIn junkCharsLead (toStr f))) := by
  simp only [stage2, h1, h2, if_false, if_true, h3]
  simp [h4, h5]

theorem all_dot_false {a k : Bytes} (hk : k ≠ []) (hdot : DOT ∉ k) :
    (a ++ k).all (· == DOT) = false := by
  cases k with
  | nil => exact absurd rfl hk
  | cons b t =>
    have : b ≠ DOT := fun h => hdot (by simp [h])
    simp [this]

theorem dot_mem_junkLead : DOT ∈ junkCharsLead := by simp [mem_junkLead]

/-- A name `n.k` whose last component `k` is non-empty and junk-free is cleaned to a path
with extension `k`. -/
theorem cleanName_append_dot {n k : Bytes} (hn : n ≠ []) (hk : k ≠ []) (hdot : DOT ∉ k)
    (hjunk : ∀ b ∈ k, b ∉ junkChars) :
    ∃ c f, cleanName (n ++ DOT :: k) = .ok c f ∧ extension c = some k := by
  have hlead : ∀ b ∈ k, b ∉ junkCharsLead := by
    intro b hb h
    rcases mem_junkLead.mp h with h | h
    · exact hjunk b hb h
    · exact hdot (h ▸ hb)
  have hdd := append_dot_ne_dotdot (a := n) hn hk
  have hfn := fileName_append_dot hn hdd
  have hne := (append_dot_ne (k := k) hn).1
  have hext := extension_append_dot hn hdot hdd
  have hends : endsWithIn junkChars (toStr (n ++ DOT :: k)) = false := by
    rcases toStr_eq (n ++ DOT :: k) with h | h <;> rw [h]
    · rw [show n ++ DOT :: k = (n ++ [DOT]) ++ k by simp, endsWithIn_append hk]
      exact endsWithIn_of_forall hjunk
    · rfl
  have hs1 : stage1 (n ++ DOT :: k) = some (n ++ DOT :: k, n ++ DOT :: k) := by
    simp [stage1, hfn, hends]
  rw [cleanName_eq, hs1]
  simp only
  have hall : ¬ (toStr (n ++ DOT :: k) ≠ [] ∧ (toStr (n ++ DOT :: k)).all (· == DOT) = true) := by
    rintro ⟨h1, h2⟩
    rw [toStr_of_ne h1, show n ++ DOT :: k = (n ++ [DOT]) ++ k by simp, all_dot_false hk hdot] at h2
    cases h2
  cases hst : startsWithIn junkCharsLead (toStr (n ++ DOT :: k)) with
  | false => exact ⟨_, _, stage2_keep hne hall hst, hext⟩
  | true =>
    have hts : toStr (n ++ DOT :: k) = n ++ DOT :: k := by
      apply toStr_of_ne; intro h; rw [h] at hst; cases hst
    have hk' : trimStartIn junkCharsLead (DOT :: k) = k := by
      have : junkCharsLead.contains DOT = true := by simpa using dot_mem_junkLead
      simp only [trimStartIn, this, if_true]
      exact trimStartIn_of_head (startsWithIn_of_forall hlead)
    by_cases ht : trimStartIn junkCharsLead n = []
    · have : trimStartIn junkCharsLead (toStr (n ++ DOT :: k)) = k := by
        rw [hts, trimStartIn_append, if_pos ht, hk']
      exact ⟨_, _, stage2_keep_ext hne hall (by rw [this]; exact hk) (by rw [this, hext]; rfl), hext⟩
    · have htr : trimStartIn junkCharsLead (toStr (n ++ DOT :: k)) =
          trimStartIn junkCharsLead n ++ DOT :: k := by
        rw [hts, trimStartIn_append, if_neg ht]
      have hdd' := append_dot_ne_dotdot (a := trimStartIn junkCharsLead n) ht hk
      have hfn' := fileName_append_dot ht hdd'
      refine ⟨_, _, stage2_trim hall hst ?_ ?_ ?_, ?_⟩
      · rw [htr]; exact (append_dot_ne ht).1
      · rw [htr, hext]
        intro h
        have := congrArg List.length h
        simp at this
        omega
      · rw [htr, hfn']; exact (append_dot_ne ht).1
      · rw [htr]; exact extension_append_dot ht hdot hdd'

/-! ### Names of the form `n.k` -/

theorem asciiLower_ne_nil {k : Bytes} (hk : k ≠ []) : asciiLower k ≠ [] := by
  simpa [asciiLower] using hk

theorem step_append_dot {n k : Bytes} (hn : n ≠ []) (hk : k ≠ []) (hdot : DOT ∉ k)
    (hjunk : ∀ b ∈ k, b ∉ junkChars) (hutf : isUtf8 k = true) :
    step (n ++ DOT :: k) = actStep (lookup suffixTable (asciiLower k)) := by
  obtain ⟨c, f, hc, hx⟩ := cleanName_append_dot hn hk hdot hjunk
  have hsuf : suffixOf c = asciiLower k := by simp [suffixOf, hx, toStr_utf8 hutf]
  simp only [step, hc, stepOf, hsuf]
  generalize lookup suffixTable _ = act
  cases act <;> simp [actStep, asciiLower_ne_nil hk]

theorem classify_append_dot {n k : Bytes} (ua : Bool) (hn : n ≠ []) (hk : k ≠ []) (hdot : DOT ∉ k)
    (hjunk : ∀ b ∈ k, b ∉ junkChars) (hutf : isUtf8 k = true) :
    classify (n ++ DOT :: k) ua =
      match actStep (lookup suffixTable (asciiLower k)) with
      | .fallback => some (fallback ua .normal)
      | .kind kd => some ⟨kd, .normal⟩
      | .same => classify n ua
      | .arch a => classifyAux (n.length + 1) n ua a := by
  unfold classify
  rw [classifyAux_succ, step_append_dot hn hk hdot hjunk hutf,
    withExtensionEmpty_append_dot hn hdot (append_dot_ne_dotdot hn hk)]
  split
  · rfl
  · rfl
  · exact classifyAux_fuel _ _ _ _ (by simp)
  · exact classifyAux_fuel _ _ _ _ (by simp)

theorem classify_rotation (n k : Bytes) (ua : Bool) (hn : n ≠ []) (hk : k ≠ [])
    (hdot : DOT ∉ k) (hjunk : ∀ b ∈ k, b ∉ junkChars) (hutf : isUtf8 k = true)
    (hrow : lookup suffixTable (asciiLower k) = .nomatch) :
    classify (n ++ DOT :: k) ua = classify n ua := by
  rw [classify_append_dot ua hn hk hdot hjunk hutf, hrow]
  rfl

theorem lowerByte_junkLead : ∀ b ∈ junkCharsLead, lowerByte b = b := by decide

/-- A key of the suffix table is non-empty and has neither `.` nor junk characters,
and so does any string that lower-cases to it. -/
theorem suffix_key_shape {k : Bytes} {a : Act} (h : lookup suffixTable (asciiLower k) = a)
    (ha : a ≠ .nomatch) : k ≠ [] ∧ DOT ∉ k ∧ ∀ b ∈ k, b ∉ junkChars := by
  obtain ⟨h1, h2⟩ := suffix_lookup_key h ha
  have h3 : ∀ b ∈ k, b ∉ junkCharsLead := by
    intro b hb hl
    apply h2 (lowerByte b)
    · simp only [asciiLower, List.mem_map]; exact ⟨b, hb, rfl⟩
    · rw [lowerByte_junkLead b hl]; exact hl
  refine ⟨?_, ?_, ?_⟩
  · rintro rfl; exact h1 rfl
  · exact fun hd => h3 _ hd dot_mem_junkLead
  · exact fun b hb hj => h3 b hb (mem_junkLead.mpr (Or.inl hj))

theorem classify_compress_retag (n k : Bytes) (ua : Bool) (a : Arch) (r : Result) (hn : n ≠ [])
    (hrow : lookup suffixTable (asciiLower k) = .compress a) (hutf : isUtf8 k = true)
    (h : classify n ua = some r) : classify (n ++ DOT :: k) ua = some (retag a r) := by
  obtain ⟨hk, hdot, hjunk⟩ := suffix_key_shape hrow (by simp)
  rw [classify_append_dot ua hn hk hdot hjunk hutf, hrow]
  exact classifyAux_retag _ _ _ _ _ h

theorem classify_compress (n k : Bytes) (ua : Bool) (a : Arch) (r : Result) (hn : n ≠ [])
    (hrow : lookup suffixTable (asciiLower k) = .compress a) (hutf : isUtf8 k = true)
    (h : classify n ua = some r) (hk : r.kind ≠ .unparsable) (harch : r.arch = .normal) :
    classify (n ++ DOT :: k) ua = some ⟨r.kind, a⟩ := by
  rw [classify_compress_retag n k ua a r hn hrow hutf h]
  simp [retag, hk, harch]

theorem classify_compress_inner (n k : Bytes) (ua : Bool) (a : Arch) (r : Result) (hn : n ≠ [])
    (hrow : lookup suffixTable (asciiLower k) = .compress a) (hutf : isUtf8 k = true)
    (h : classify n ua = some r) (harch : r.arch ≠ .normal) :
    classify (n ++ DOT :: k) ua = some r := by
  rw [classify_compress_retag n k ua a r hn hrow hutf h]
  simp [retag, harch]

theorem classify_type_word (n w : Bytes) (ua : Bool) (hn : n ≠ []) (hw : w ≠ [])
    (hutf : isUtf8 w = true) (hdot : DOT ∉ w) (hjunk : ∀ b ∈ w, b ∉ junkChars) :
    classify (n ++ DOT :: w) ua =
      (match lookup suffixTable (asciiLower w) with
       | .evtx => some ⟨.evtx, .normal⟩
       | .journal => some ⟨.journal, .normal⟩
       | .text => some ⟨.text, .normal⟩
       | .fixed t => some ⟨.fixed t, .normal⟩
       | .tarArchive => some ⟨.archiveTar, .normal⟩
       | .nonlog => some (fallback ua .normal)
       | .compress a => classifyAux (n.length + 1) n ua a
       | .nomatch => classify n ua) := by
  rw [classify_append_dot ua hn hw hdot hjunk hutf]
  generalize lookup suffixTable _ = act
  cases act <;> rfl

/-! ### A single clean component -/

theorem fileName_of_not_mem {n : Bytes} (hn : n ≠ []) (hdot : DOT ∉ n) : fileName n = n := by
  apply fileName_of_ne
  rw [Ne, fileName_eq_nil]
  rintro (h | h | h)
  · exact hn h
  · subst h; simp at hdot
  · subst h; simp at hdot

theorem all_dot_false' {n : Bytes} (hn : n ≠ []) (hdot : DOT ∉ n) : n.all (· == DOT) = false := by
  simpa using all_dot_false (a := []) hn hdot

theorem cleanName_component {n : Bytes} (hn : n ≠ []) (hutf : isUtf8 n = true)
    (hdot : DOT ∉ n) (hjunk : ∀ b ∈ n, b ∉ junkChars) : cleanName n = .ok n n := by
  have hlead : ∀ b ∈ n, b ∉ junkCharsLead := by
    intro b hb h
    rcases mem_junkLead.mp h with h | h
    · exact hjunk b hb h
    · exact hdot (h ▸ hb)
  have hfn := fileName_of_not_mem hn hdot
  have hs1 : stage1 n = some (n, n) := by
    simp [stage1, hfn, toStr_utf8 hutf, endsWithIn_of_forall hjunk]
  rw [cleanName_eq, hs1]
  apply stage2_keep hn
  · rw [toStr_utf8 hutf, all_dot_false' hn hdot]; simp
  · rw [toStr_utf8 hutf]; exact startsWithIn_of_forall hlead

theorem suffixOf_of_not_mem {n : Bytes} (hdot : DOT ∉ n) : suffixOf n = [] := by
  simp [suffixOf, extension_none_of_not_mem hdot, toStr, isUtf8, asciiLower]

theorem classify_default_text (n : Bytes) (ua : Bool) (hn : n ≠ []) (hutf : isUtf8 n = true)
    (hdot : DOT ∉ n) (hjunk : ∀ b ∈ n, b ∉ junkChars)
    (hrow : lookup nameTable (asciiLower n) = .nomatch ∨ lookup nameTable (asciiLower n) = .text) :
    classify n ua = some ⟨.text, .normal⟩ := by
  have hstep : step n = .kind .text := by
    simp only [step, cleanName_component hn hutf hdot hjunk, stepOf, suffixOf_of_not_mem hdot,
      suffix_nil, nameStep, toStr_utf8 hutf]
    rcases hrow with h | h <;> simp [h, asciiLower_ne_nil hn, actStep]
  unfold classify
  rw [classifyAux_succ, hstep]

/-! ### UTF-8 and ASCII junk -/

theorem isUtf8_append {a b : Bytes} (ha : isUtf8 a = true) : isUtf8 (a ++ b) = isUtf8 b := by
  fun_induction isUtf8 a
  case case1 => rfl
  all_goals first
    | (exact absurd ha (by decide))
    | (try simp only [Bool.and_eq_true] at ha
       simp only [List.cons_append]
       conv => lhs; unfold isUtf8
       simp [*])

theorem junkLead_ascii : ∀ b ∈ junkCharsLead, b < 0x80 := by decide

theorem isUtf8_ascii {j : Bytes} (h : ∀ b ∈ j, b < 0x80) : isUtf8 j = true := by
  induction j with
  | nil => rfl
  | cons b t ih =>
    unfold isUtf8
    simp [h b (by simp), ih (fun x hx => h x (by simp [hx]))]

theorem isUtf8_junk {j : Bytes} (h : ∀ b ∈ j, b ∈ junkChars) : isUtf8 j = true :=
  isUtf8_ascii fun b hb => junkLead_ascii b (mem_junkLead.mpr (Or.inl (h b hb)))

theorem dot_not_mem_junk : DOT ∉ junkChars := by decide

/-! ### Trailing junk -/

theorem trimStartIn_all {junk j : Bytes} (h : ∀ b ∈ j, b ∈ junk) : trimStartIn junk j = [] := by
  induction j with
  | nil => rfl
  | cons b t ih =>
    have : junk.contains b = true := by simpa using h b (by simp)
    simp only [trimStartIn, this, if_true]
    exact ih fun x hx => h x (by simp [hx])

theorem trimEndIn_append_junk {junk n j : Bytes} (h : ∀ b ∈ j, b ∈ junk) :
    trimEndIn junk (n ++ j) = trimEndIn junk n := by
  unfold trimEndIn
  rw [List.reverse_append, trimStartIn_append,
    if_pos (trimStartIn_all (by simpa using h))]

theorem trimEndIn_of_not_ends {junk n : Bytes} (h : endsWithIn junk n = false) :
    trimEndIn junk n = n := by
  unfold trimEndIn
  rw [trimStartIn_of_head, List.reverse_reverse]
  unfold startsWithIn
  unfold endsWithIn at h
  rw [List.head?_reverse]
  exact h

theorem endsWithIn_junk {junk n j : Bytes} (hj : j ≠ []) (h : ∀ b ∈ j, b ∈ junk) :
    endsWithIn junk (n ++ j) = true := by
  rw [endsWithIn_append hj]
  unfold endsWithIn
  cases hl : j.getLast? with
  | none => simp at hl; exact absurd hl hj
  | some b => simpa using h b (List.mem_of_getLast? hl)

theorem cleanName_small : cleanName [] = .early ∧ cleanName [DOT] = .early := by decide

theorem trimEnd_small : trimEndIn junkChars [] = [] ∧ trimEndIn junkChars [DOT] = [DOT] ∧
    trimEndIn junkChars [DOT, DOT] = [DOT, DOT] := by decide

theorem cleanName_append_junk {n j : Bytes} (hutf : isUtf8 n = true)
    (hj : ∀ b ∈ j, b ∈ junkChars) : cleanName (n ++ j) = cleanName n := by
  by_cases hj0 : j = []
  · simp [hj0]
  have hutf' : isUtf8 (n ++ j) = true := by rw [isUtf8_append hutf]; exact isUtf8_junk hj
  have hlast : ∀ b, (n ++ j).getLast? = some b → b ≠ DOT := by
    intro b hb hd
    rw [List.getLast?_append] at hb
    cases hl : j.getLast? with
    | none => simp at hl; exact hj0 hl
    | some x =>
      simp [hl] at hb
      subst hb hd
      exact dot_not_mem_junk (hj _ (List.mem_of_getLast? hl))
  have hfn : fileName (n ++ j) = n ++ j := by
    apply fileName_of_ne
    rw [Ne, fileName_eq_nil]
    rintro (h | h | h)
    · simp at h; exact hj0 h.2
    · exact hlast DOT (by rw [h]; rfl) rfl
    · exact hlast DOT (by rw [h]; rfl) rfl
  have hs1 : stage1 (n ++ j) =
      if trimEndIn junkChars n = [] ∨ (trimEndIn junkChars n).all (· == DOT) = true then none
      else some (trimEndIn junkChars n, fileName (trimEndIn junkChars n)) := by
    simp only [stage1, hfn, toStr_utf8 hutf', endsWithIn_junk hj0 hj, if_true,
      trimEndIn_append_junk hj]
  by_cases hn0 : fileName n = []
  · -- `""`, `"."`, `".."`
    rw [cleanName_eq, hs1]
    rcases fileName_eq_nil.mp hn0 with rfl | rfl | rfl
    · simp [trimEnd_small, cleanName_small]
    · simp [trimEnd_small, cleanName_small]
    · simp [trimEnd_small, cleanName_dotdot]
  · have hfn' := fileName_of_ne hn0
    have hnn : n ≠ [] := fun h => hn0 (by simp [h, fileName])
    rw [cleanName_eq, cleanName_eq, hs1]
    cases he : endsWithIn junkChars n with
    | true => simp only [stage1, hfn', toStr_utf8 hutf, he, if_true]
    | false =>
      have hs1' : stage1 n = some (n, n) := by
        simp [stage1, hfn', toStr_utf8 hutf, he]
      rw [hs1', trimEndIn_of_not_ends he, hfn']
      by_cases hall : n.all (· == DOT) = true
      · simp only [hall, or_true, if_true, stage2, toStr_utf8 hutf]
        simp [hnn]
      · simp [hnn, hall]

theorem withExtensionEmpty_append_junk {n j : Bytes} (hj : ∀ b ∈ j, b ∈ junkChars)
    (ht : DOT ∈ n.tail) (hne : n ≠ [DOT, DOT]) :
    withExtensionEmpty (n ++ j) = withExtensionEmpty n := by
  obtain ⟨a, k, ha, hk, rfl⟩ := split_of_mem_tail ht
  have hk' : DOT ∉ k ++ j := by
    simp only [List.mem_append, not_or]
    exact ⟨hk, fun h => dot_not_mem_junk (hj _ h)⟩
  rw [withExtensionEmpty_append_dot ha hk hne]
  by_cases hj0 : j = []
  · subst hj0; simp only [List.append_nil]; exact withExtensionEmpty_append_dot ha hk hne
  · rw [show (a ++ DOT :: k) ++ j = a ++ DOT :: (k ++ j) by simp]
    exact withExtensionEmpty_append_dot ha hk' (append_dot_ne_dotdot ha (by simp [hj0]))

theorem step_congr {n m : Bytes} (h : cleanName n = cleanName m) : step n = step m := by
  unfold step; rw [h]

theorem classify_junk_trailing (n j : Bytes) (ua : Bool) (hutf : isUtf8 n = true)
    (hj : ∀ b ∈ j, b ∈ junkChars) : classify (n ++ j) ua = classify n ua := by
  unfold classify
  rw [classifyAux_succ, classifyAux_succ, step_congr (cleanName_append_junk hutf hj)]
  split
  · rfl
  · rfl
  · next hs =>
    have ht := step_rec_tail (Or.inl hs)
    rw [withExtensionEmpty_append_junk hj ht.1 ht.2]
    have := withExt_lt ht.1 ht.2
    exact classifyAux_fuel_eq _ _ _ _ _ (by simp; omega) (by omega)
  · next a hs =>
    have ht := step_rec_tail (Or.inr ⟨a, hs⟩)
    rw [withExtensionEmpty_append_junk hj ht.1 ht.2]
    have := withExt_lt ht.1 ht.2
    exact classifyAux_fuel_eq _ _ _ _ _ (by simp; omega) (by omega)

/-- Witness: `\xFF.log~` (not UTF-8, so nothing is trimmed) vs `\xFF.log`. -/
theorem junk_trailing_full_false :
    ¬ ∀ (n j : Bytes) (ua : Bool), (∀ b ∈ j, b ∈ junkChars) →
      classify (n ++ j) ua = classify n ua := by
  intro h
  have := h [0xFF, 46, 108, 111, 103] [126] false (by decide)
  revert this
  decide

/-- Witness: `..x` walked (`ua = false`) is `Unparsable`, `x` is text. -/
theorem junk_leading_full_false :
    ¬ ∀ (n j : Bytes) (ua : Bool), isUtf8 n = true → (∀ b ∈ j, b ∈ junkCharsLead) →
      classify (j ++ n) ua = classify n ua := by
  intro h
  have := h [120] [46, 46] false (by decide) (by decide)
  revert this
  decide

/-! ### Leading junk -/

/-- The prefixes handled: non-empty, made of leading-junk characters, and either the single
`.` of a hidden file or free of `.`. -/
structure JunkPrefix (p : Bytes) : Prop where
  ne : p ≠ []
  lead : ∀ b ∈ p, b ∈ junkCharsLead
  dot : p = [DOT] ∨ DOT ∉ p

theorem fileName_of_mem_ne {x : Bytes} {c : UInt8} (hc : c ∈ x) (hd : c ≠ DOT) : fileName x = x := by
  apply fileName_of_ne
  rw [Ne, fileName_eq_nil]
  rintro (h | h | h) <;> subst h <;> simp at hc <;> exact hd hc

theorem all_dot_of_mem_ne {x : Bytes} {c : UInt8} (hc : c ∈ x) (hd : c ≠ DOT) :
    x.all (· == DOT) = false := by
  cases h : x.all (· == DOT) with
  | false => rfl
  | true =>
    rw [List.all_eq_true] at h
    exact absurd (by simpa using h c hc) hd

theorem not_lead {c : UInt8} (h : c ∉ junkCharsLead) : c ≠ DOT ∧ c ∉ junkChars := by
  constructor
  · rintro rfl; exact h dot_mem_junkLead
  · exact fun hj => h (mem_junkLead.mpr (Or.inl hj))

theorem exists_head {n : Bytes} (hn : n ≠ []) (hs : startsWithIn junkCharsLead n = false) :
    ∃ c m, n = c :: m ∧ c ∉ junkCharsLead := by
  cases n with
  | nil => exact absurd rfl hn
  | cons c m => exact ⟨c, m, rfl, by simpa [startsWithIn] using hs⟩

theorem startsWithIn_cons {junk m : Bytes} {c : UInt8} (h : c ∉ junk) :
    startsWithIn junk (c :: m) = false := by
  simpa [startsWithIn] using h

theorem isUtf8_prefix {p : Bytes} (hp : ∀ b ∈ p, b ∈ junkCharsLead) (n : Bytes) :
    isUtf8 (p ++ n) = isUtf8 n :=
  isUtf8_append (isUtf8_ascii fun b hb => junkLead_ascii b (hp b hb))

theorem toStr_prefix_nil {p : Bytes} (hp : ∀ b ∈ p, b ∈ junkCharsLead) {n : Bytes}
    (h : isUtf8 n = false) : toStr (p ++ n) = [] ∧ toStr n = [] := by
  simp [toStr, isUtf8_prefix hp, h]

theorem extension_prefix {p m : Bytes} {c : UInt8} (hp : JunkPrefix p) (hc : c ∉ junkCharsLead) :
    extension (p ++ c :: m) = extension (c :: m) := by
  have hcd := (not_lead hc).1
  by_cases hm : DOT ∈ m
  · obtain ⟨a, k, ha, hk, hak⟩ := split_of_mem_tail (n := c :: m) hm
    have hne : a ++ DOT :: k ≠ [DOT, DOT] := by
      rw [← hak]; intro h; simp at h; exact hcd h.1
    have hne' : (p ++ a) ++ DOT :: k ≠ [DOT, DOT] := by
      intro h
      have := congrArg List.length h
      have h1 := List.length_pos_iff.mpr hp.ne
      have h2 := List.length_pos_iff.mpr ha
      simp at this; omega
    rw [hak, extension_append_dot ha hk hne,
      show p ++ (a ++ DOT :: k) = (p ++ a) ++ DOT :: k by simp,
      extension_append_dot (by simp [ha]) hk hne']
  · have hd : DOT ∉ c :: m := by simp [hm, Ne.symm hcd]
    rw [extension_none_of_not_mem hd]
    rcases hp.dot with rfl | hpd
    · have hfn : fileName ([DOT] ++ c :: m) = [DOT] ++ c :: m :=
        fileName_of_mem_ne (c := c) (by simp) hcd
      unfold extension
      simp only [hfn]
      have : splitLastDot (DOT :: c :: m) = some ([], c :: m) := by
        simpa using splitLastDot_append (a := []) hd
      simp [rsplitFileAtDot, this, hcd]
    · exact extension_none_of_not_mem (by simp [hpd, hd])

def stepC : Cleaned → Step
  | .early => .fallback
  | .ok c f => stepOf c f

theorem step_eq (n : Bytes) : step n = stepC (cleanName n) := by
  unfold step stepC; cases cleanName n <;> rfl

theorem ne_extension_self {x : Bytes} (hx : x ≠ []) : x ≠ (extension x).getD [] := by
  cases h : extension x with
  | none => simpa using hx
  | some aft =>
    obtain ⟨bef, _, hb, _, _⟩ := extension_some h
    intro h2
    have := congrArg List.length hb
    simp at h2
    rw [← h2] at this
    simp at this
    omega

theorem startsWithIn_prefix {p n : Bytes} (hp : JunkPrefix p) :
    startsWithIn junkCharsLead (p ++ n) = true := by
  obtain ⟨hne, hl, _⟩ := hp
  cases p with
  | nil => exact absurd rfl hne
  | cons b t => simpa [startsWithIn] using hl b (by simp)

theorem stage2_prefix {p m : Bytes} {c : UInt8} (hp : JunkPrefix p) (hc : c ∉ junkCharsLead) :
    stepC (stage2 (p ++ c :: m) (p ++ c :: m)) = stepC (stage2 (c :: m) (c :: m)) := by
  have hcd := (not_lead hc).1
  have hne : p ++ c :: m ≠ [] := by simp
  cases hu : isUtf8 (c :: m) with
  | false =>
    obtain ⟨h1, h2⟩ := toStr_prefix_nil hp.lead hu
    rw [stage2_keep hne (by simp [h1]) (by simp [h1, startsWithIn]),
      stage2_keep (by simp) (by simp [h2]) (by simp [h2, startsWithIn])]
    simp only [stepC, stepOf, suffixOf, extension_prefix hp hc, nameStep, h1, h2]
  | true =>
    have h2 : toStr (c :: m) = c :: m := toStr_utf8 hu
    have h1 : toStr (p ++ c :: m) = p ++ c :: m := toStr_utf8 (by rw [isUtf8_prefix hp.lead]; exact hu)
    have htr : trimStartIn junkCharsLead (p ++ c :: m) = c :: m := by
      rw [trimStartIn_append, if_pos (trimStartIn_all hp.lead)]
      exact trimStartIn_of_head (startsWithIn_cons hc)
    have hfn : fileName (c :: m) = c :: m := fileName_of_mem_ne (c := c) (by simp) hcd
    rw [stage2_keep (c := c :: m) (by simp)
        (by rw [h2, all_dot_of_mem_ne (c := c) (by simp) hcd]; simp)
        (by rw [h2]; exact startsWithIn_cons hc),
      stage2_trim (c := p ++ c :: m)
        (by rw [h1, all_dot_of_mem_ne (c := c) (by simp) hcd]; simp)
        (by rw [h1]; exact startsWithIn_prefix hp)
        (by rw [h1, htr]; simp)
        (by rw [h1, htr, extension_prefix hp hc]; exact ne_extension_self (by simp))
        (by rw [h1, htr, hfn]; simp)]
    rw [h1, htr, hfn]

theorem trimEndIn_cons_head {junk m : Bytes} {c : UInt8} (hc : c ∉ junk) :
    ∃ m', trimEndIn junk (c :: m) = c :: m' := by
  unfold trimEndIn
  rw [List.reverse_cons, trimStartIn_append]
  have h1 : trimStartIn junk [c] = [c] := trimStartIn_of_head (startsWithIn_cons hc)
  split
  · exact ⟨[], by rw [h1]; rfl⟩
  · exact ⟨(trimStartIn junk m.reverse).reverse, by simp⟩

theorem trimEndIn_prefix_append {junk p x : Bytes} (hx : trimEndIn junk x ≠ []) :
    trimEndIn junk (p ++ x) = p ++ trimEndIn junk x := by
  unfold trimEndIn at *
  rw [List.reverse_append, trimStartIn_append, if_neg (by simpa using hx)]
  simp

theorem step_prefix {p m : Bytes} {c : UInt8} (hp : JunkPrefix p) (hc : c ∉ junkCharsLead) :
    step (p ++ c :: m) = step (c :: m) := by
  have hcd := (not_lead hc).1
  have hcj := (not_lead hc).2
  have hfn : fileName (c :: m) = c :: m := fileName_of_mem_ne (c := c) (by simp) hcd
  have hfn' : fileName (p ++ c :: m) = p ++ c :: m := fileName_of_mem_ne (c := c) (by simp) hcd
  have hkeep : ∀ m', stage1 (c :: m') = some (c :: m', c :: m') →
      stage1 (p ++ c :: m') = some (p ++ c :: m', p ++ c :: m') →
      step (p ++ c :: m') = step (c :: m') := by
    intro m' h1 h2
    rw [step_eq, step_eq, cleanName_eq, cleanName_eq, h1, h2]
    exact stage2_prefix hp hc
  cases hu : isUtf8 (c :: m) with
  | false =>
    obtain ⟨h1, h2⟩ := toStr_prefix_nil hp.lead hu
    apply hkeep
    · simp [stage1, hfn, h2, endsWithIn]
    · simp [stage1, hfn', h1, endsWithIn]
  | true =>
    have h2 : toStr (c :: m) = c :: m := toStr_utf8 hu
    have h1 : toStr (p ++ c :: m) = p ++ c :: m := toStr_utf8 (by rw [isUtf8_prefix hp.lead]; exact hu)
    have he' : endsWithIn junkChars (p ++ c :: m) = endsWithIn junkChars (c :: m) :=
      endsWithIn_append (by simp)
    cases he : endsWithIn junkChars (c :: m) with
    | false =>
      apply hkeep
      · simp [stage1, hfn, h2, he]
      · simp [stage1, hfn', h1, he', he]
    | true =>
      obtain ⟨m', hm'⟩ := trimEndIn_cons_head (m := m) hcj
      have hfm : fileName (c :: m') = c :: m' := fileName_of_mem_ne (c := c) (by simp) hcd
      have hfm' : fileName (p ++ c :: m') = p ++ c :: m' := fileName_of_mem_ne (c := c) (by simp) hcd
      have hs1 : stage1 (c :: m) = some (c :: m', c :: m') := by
        simp [stage1, hfn, h2, he, hm', hfm, all_dot_of_mem_ne (x := c :: m') (c := c) (by simp) hcd]
      have hs2 : stage1 (p ++ c :: m) = some (p ++ c :: m', p ++ c :: m') := by
        have : trimEndIn junkChars (p ++ c :: m) = p ++ c :: m' := by
          rw [trimEndIn_prefix_append (by simp [hm']), hm']
        have hall := all_dot_of_mem_ne (x := p ++ c :: m') (c := c) (by simp) hcd
        simp only [stage1, hfn', h1, he', he, if_true, this, hfm']
        simp [hall]
      rw [step_eq, step_eq, cleanName_eq, cleanName_eq, hs1, hs2]
      exact stage2_prefix hp hc

theorem withExt_prefix {p m : Bytes} {c : UInt8} (hp : JunkPrefix p) (hcd : c ≠ DOT) (hm : DOT ∈ m) :
    ∃ m', withExtensionEmpty (c :: m) = c :: m' ∧
      withExtensionEmpty (p ++ c :: m) = p ++ c :: m' := by
  obtain ⟨a, k, ha, hk, hak⟩ := split_of_mem_tail (n := c :: m) hm
  cases a with
  | nil => exact absurd rfl ha
  | cons c' a' =>
    simp only [List.cons_append, List.cons.injEq] at hak
    obtain ⟨rfl, rfl⟩ := hak
    have hne : (c :: a') ++ DOT :: k ≠ [DOT, DOT] := by
      intro h; simp at h; exact hcd h.1
    have hne' : (p ++ c :: a') ++ DOT :: k ≠ [DOT, DOT] := by
      intro h
      have := congrArg List.length h
      have h1 := List.length_pos_iff.mpr hp.ne
      simp at this; omega
    refine ⟨a', withExtensionEmpty_append_dot (a := c :: a') ha hk hne, ?_⟩
    rw [show p ++ c :: (a' ++ DOT :: k) = (p ++ c :: a') ++ DOT :: k by simp]
    exact withExtensionEmpty_append_dot (by simp) hk hne'

theorem classifyAux_prefix {p : Bytes} (hp : JunkPrefix p) (ua : Bool) :
    ∀ (fuel : Nat) (m : Bytes) (c : UInt8) (fta : Arch), c ∉ junkCharsLead →
      classifyAux fuel (p ++ c :: m) ua fta = classifyAux fuel (c :: m) ua fta := by
  intro fuel
  induction fuel with
  | zero => intros; rfl
  | succ fuel ih =>
    intro m c fta hc
    rw [classifyAux_succ, classifyAux_succ, step_prefix hp hc]
    split
    · rfl
    · rfl
    · next hs =>
      obtain ⟨m', h1, h2⟩ := withExt_prefix (m := m) hp (not_lead hc).1 (step_rec_tail (Or.inl hs)).1
      rw [h1, h2]; exact ih _ _ _ hc
    · next a hs =>
      obtain ⟨m', h1, h2⟩ := withExt_prefix (m := m) hp (not_lead hc).1 (step_rec_tail (Or.inr ⟨a, hs⟩)).1
      rw [h1, h2]; exact ih _ _ _ hc

theorem classify_prefix {p n : Bytes} (hp : JunkPrefix p) (ua : Bool) (hn : n ≠ [])
    (hs : startsWithIn junkCharsLead n = false) : classify (p ++ n) ua = classify n ua := by
  obtain ⟨c, m, rfl, hc⟩ := exists_head hn hs
  unfold classify
  rw [classifyAux_prefix hp ua _ _ _ _ hc]
  exact classifyAux_fuel _ _ _ _ (by simp)

/-- Leading junk characters other than `.` never matter (no UTF-8 assumption is needed). -/
theorem classify_junk_leading' (n j : Bytes) (ua : Bool)
    (hj : ∀ b ∈ j, b ∈ junkChars) (hn : startsWithIn junkCharsLead n = false) :
    classify (j ++ n) ua = classify n ua := by
  by_cases hj0 : j = []
  · simp [hj0]
  by_cases hn0 : n = []
  · subst hn0
    simpa using classify_junk_trailing [] j ua rfl hj
  · exact classify_prefix ⟨hj0, fun b hb => mem_junkLead.mpr (Or.inl (hj b hb)),
      Or.inr fun h => dot_not_mem_junk (hj _ h)⟩ ua hn0 hn

theorem classify_junk_leading (n j : Bytes) (ua : Bool) (_hutf : isUtf8 n = true)
    (hj : ∀ b ∈ j, b ∈ junkChars) (hn : startsWithIn junkCharsLead n = false) :
    classify (j ++ n) ua = classify n ua :=
  classify_junk_leading' n j ua hj hn

theorem classify_dot_nil (ua : Bool) : classify [DOT] ua = classify [] ua := by
  cases ua <;> decide

/-- One leading `.` (a hidden file) does not matter (no UTF-8 assumption is needed). -/
theorem classify_hidden' (n : Bytes) (ua : Bool) (hn : startsWithIn junkCharsLead n = false) :
    classify (DOT :: n) ua = classify n ua := by
  by_cases hn0 : n = []
  · subst hn0; exact classify_dot_nil ua
  · exact classify_prefix (p := [DOT]) ⟨by simp, by simp [dot_mem_junkLead], Or.inl rfl⟩ ua hn0 hn

theorem classify_hidden (n : Bytes) (ua : Bool) (_hutf : isUtf8 n = true)
    (hn : startsWithIn junkCharsLead n = false) : classify (DOT :: n) ua = classify n ua :=
  classify_hidden' n ua hn

/-! ### Letter case -/

theorem uint8_forall {P : UInt8 → Prop} (h : ∀ i : Fin 256, P (UInt8.ofNat i.val)) : ∀ b, P b := by
  intro b
  have := h ⟨b.toNat, b.toNat_lt⟩
  simpa using this

theorem lowerByte_idem : ∀ b, lowerByte (lowerByte b) = lowerByte b := by
  apply uint8_forall; decide +kernel

theorem lowerByte_lt : ∀ b, lowerByte b < 0x80 ↔ b < 0x80 := by
  apply uint8_forall; decide +kernel

theorem lowerByte_high : ∀ b, ¬ b < 0x80 → lowerByte b = b := by
  apply uint8_forall; decide +kernel

theorem lowerByte_isCont : ∀ b, isCont (lowerByte b) = isCont b := by
  apply uint8_forall; decide +kernel

theorem lowerByte_rangeA : ∀ b : UInt8, (decide (0xA0 ≤ lowerByte b) && decide (lowerByte b ≤ 0xBF)) = (decide (0xA0 ≤ b) && decide (b ≤ 0xBF)) := by
  apply uint8_forall; decide +kernel
theorem lowerByte_rangeB : ∀ b : UInt8, (decide (0x80 ≤ lowerByte b) && decide (lowerByte b ≤ 0x9F)) = (decide (0x80 ≤ b) && decide (b ≤ 0x9F)) := by
  apply uint8_forall; decide +kernel
theorem lowerByte_rangeC : ∀ b : UInt8, (decide (0x90 ≤ lowerByte b) && decide (lowerByte b ≤ 0xBF)) = (decide (0x90 ≤ b) && decide (b ≤ 0xBF)) := by
  apply uint8_forall; decide +kernel
theorem lowerByte_rangeD : ∀ b : UInt8, (decide (0x80 ≤ lowerByte b) && decide (lowerByte b ≤ 0x8F)) = (decide (0x80 ≤ b) && decide (b ≤ 0x8F)) := by
  apply uint8_forall; decide +kernel

theorem lowerByte_dot : ∀ b, lowerByte b = DOT ↔ b = DOT := by
  apply uint8_forall; decide +kernel

theorem contains_lowerByte_junk : ∀ b, junkChars.contains (lowerByte b) = junkChars.contains b := by
  apply uint8_forall; decide +kernel

theorem contains_lowerByte_junkLead : ∀ b, junkCharsLead.contains (lowerByte b) = junkCharsLead.contains b := by
  apply uint8_forall; decide +kernel

theorem asciiLower_cons (b : UInt8) (r : Bytes) : asciiLower (b :: r) = lowerByte b :: asciiLower r := rfl
theorem asciiLower_nil : asciiLower [] = [] := rfl

local macro "utf8_short" x:ident rest:ident : tactic => `(tactic|
  (rcases $rest:ident with _ | ⟨b1, _ | ⟨b2, _ | ⟨b3, r⟩⟩⟩
   all_goals first
     | (exact ($x _ _ rfl).elim)
     | (exact ($x _ _ _ rfl).elim)
     | (exact ($x _ _ _ _ rfl).elim)
     | (simp only [asciiLower_cons, asciiLower_nil]
        rw [lowerByte_high _ (by assumption)]
        conv => lhs; unfold isUtf8
        simp [*]
        done)))

theorem isUtf8_asciiLower (a : Bytes) : isUtf8 (asciiLower a) = isUtf8 a := by
  fun_induction isUtf8 a
  case case1 => rfl
  case case4 rest _ _ x => utf8_short x rest
  case case6 rest _ _ _ x => utf8_short x rest
  case case8 rest _ _ _ _ x => utf8_short x rest
  case case10 rest _ _ _ _ _ x => utf8_short x rest
  case case12 rest _ _ _ _ _ _ x => utf8_short x rest
  case case14 rest _ _ _ _ _ _ _ x => utf8_short x rest
  case case16 rest _ _ _ _ _ _ _ _ x => utf8_short x rest
  all_goals
    simp only [asciiLower_cons]
    try rw [lowerByte_high _ (by assumption)]
    conv => lhs; unfold isUtf8
    simp [*, lowerByte_isCont, lowerByte_rangeA, lowerByte_rangeB, lowerByte_rangeC,
      lowerByte_rangeD, lowerByte_lt]

theorem asciiLower_eq_nil {s : Bytes} : asciiLower s = [] ↔ s = [] := by simp [asciiLower]

theorem asciiLower_idem (s : Bytes) : asciiLower (asciiLower s) = asciiLower s := by
  simp [asciiLower, lowerByte_idem]

theorem asciiLower_length (s : Bytes) : (asciiLower s).length = s.length := by simp [asciiLower]

theorem asciiLower_append (a b : Bytes) : asciiLower (a ++ b) = asciiLower a ++ asciiLower b := by
  simp [asciiLower]

theorem asciiLower_eq_dot {s : Bytes} : asciiLower s = [DOT] ↔ s = [DOT] := by
  rcases s with _ | ⟨b, _ | ⟨c, r⟩⟩ <;> simp [asciiLower, lowerByte_dot]

theorem asciiLower_eq_dotdot {s : Bytes} : asciiLower s = [DOT, DOT] ↔ s = [DOT, DOT] := by
  rcases s with _ | ⟨b, _ | ⟨c, _ | ⟨d, r⟩⟩⟩ <;> simp [asciiLower, lowerByte_dot]

theorem toStr_asciiLower (b : Bytes) : toStr (asciiLower b) = asciiLower (toStr b) := by
  unfold toStr; rw [isUtf8_asciiLower]; split <;> rfl

theorem fileName_asciiLower (n : Bytes) : fileName (asciiLower n) = asciiLower (fileName n) := by
  unfold fileName
  simp only [asciiLower_eq_nil, asciiLower_eq_dot, asciiLower_eq_dotdot]
  split <;> rfl

theorem all_dot_asciiLower (s : Bytes) : (asciiLower s).all (· == DOT) = s.all (· == DOT) := by
  induction s with
  | nil => rfl
  | cons b t ih =>
    simp only [asciiLower_cons, List.all_cons, ih]
    congr 1
    have := lowerByte_dot b
    by_cases h : b = DOT
    · rw [this.mpr h, h]
    · have h' : lowerByte b ≠ DOT := fun h2 => h (this.mp h2)
      rw [beq_eq_false_iff_ne.mpr h, beq_eq_false_iff_ne.mpr h']

theorem startsWithIn_asciiLower {junk : Bytes}
    (hj : ∀ b, junk.contains (lowerByte b) = junk.contains b) (s : Bytes) :
    startsWithIn junk (asciiLower s) = startsWithIn junk s := by
  cases s with
  | nil => rfl
  | cons b t => simp only [asciiLower_cons, startsWithIn, List.head?_cons, hj]

theorem trimStartIn_asciiLower {junk : Bytes}
    (hj : ∀ b, junk.contains (lowerByte b) = junk.contains b) (s : Bytes) :
    trimStartIn junk (asciiLower s) = asciiLower (trimStartIn junk s) := by
  induction s with
  | nil => rfl
  | cons b t ih =>
    simp only [asciiLower_cons, trimStartIn, hj]
    split
    · exact ih
    · rfl

theorem asciiLower_reverse (s : Bytes) : asciiLower s.reverse = (asciiLower s).reverse := by
  simp [asciiLower]

theorem trimEndIn_asciiLower {junk : Bytes}
    (hj : ∀ b, junk.contains (lowerByte b) = junk.contains b) (s : Bytes) :
    trimEndIn junk (asciiLower s) = asciiLower (trimEndIn junk s) := by
  unfold trimEndIn
  rw [← asciiLower_reverse, trimStartIn_asciiLower hj, asciiLower_reverse]

theorem endsWithIn_asciiLower {junk : Bytes}
    (hj : ∀ b, junk.contains (lowerByte b) = junk.contains b) (s : Bytes) :
    endsWithIn junk (asciiLower s) = endsWithIn junk s := by
  unfold endsWithIn asciiLower
  rw [List.getLast?_map]
  cases s.getLast? with
  | none => rfl
  | some b => exact hj b

theorem splitLastDot_asciiLower (n : Bytes) :
    splitLastDot (asciiLower n) =
      (splitLastDot n).map (fun p => (asciiLower p.1, asciiLower p.2)) := by
  induction n with
  | nil => rfl
  | cons b t ih =>
    simp only [asciiLower_cons, splitLastDot, ih]
    cases splitLastDot t with
    | some p => rfl
    | none =>
      simp only [Option.map_none, lowerByte_dot]
      split <;> rfl

theorem rsplit_asciiLower (f : Bytes) :
    rsplitFileAtDot (asciiLower f) =
      ((rsplitFileAtDot f).1.map asciiLower, (rsplitFileAtDot f).2.map asciiLower) := by
  unfold rsplitFileAtDot
  simp only [asciiLower_eq_dotdot, splitLastDot_asciiLower]
  split
  · rfl
  · cases splitLastDot f with
    | none => rfl
    | some p =>
      simp only [Option.map_some, asciiLower_eq_nil]
      split <;> rfl

theorem extension_asciiLower (n : Bytes) :
    extension (asciiLower n) = (extension n).map asciiLower := by
  unfold extension
  simp only [fileName_asciiLower, asciiLower_eq_nil, rsplit_asciiLower]
  split
  · rfl
  · rcases rsplitFileAtDot (fileName n) with ⟨_ | a, _ | b⟩ <;> rfl

theorem fileStem_asciiLower (n : Bytes) :
    fileStem (asciiLower n) = (fileStem n).map asciiLower := by
  unfold fileStem
  simp only [fileName_asciiLower, asciiLower_eq_nil, rsplit_asciiLower]
  split
  · rfl
  · rcases rsplitFileAtDot (fileName n) with ⟨_ | a, _ | b⟩ <;> rfl

theorem withExtensionEmpty_asciiLower (n : Bytes) :
    withExtensionEmpty (asciiLower n) = asciiLower (withExtensionEmpty n) := by
  unfold withExtensionEmpty
  rw [fileStem_asciiLower]
  cases fileStem n <;> rfl

def lowerC : Cleaned → Cleaned
  | .early => .early
  | .ok c f => .ok (asciiLower c) (asciiLower f)

theorem stage1_asciiLower (n : Bytes) :
    stage1 (asciiLower n) = (stage1 n).map (fun p => (asciiLower p.1, asciiLower p.2)) := by
  unfold stage1
  simp only [fileName_asciiLower, toStr_asciiLower, endsWithIn_asciiLower contains_lowerByte_junk,
    trimEndIn_asciiLower contains_lowerByte_junk, asciiLower_eq_nil, all_dot_asciiLower]
  split
  · split <;> rfl
  · rfl

theorem asciiLower_inj_suffix {x y c : Bytes} (hx : x <:+ c) (hy : y <:+ c) :
    asciiLower x = asciiLower y ↔ x = y := by
  constructor
  · intro h
    have hl : x.length = y.length := by
      rw [← asciiLower_length x, ← asciiLower_length y, h]
    exact (List.suffix_of_suffix_length_le hx hy (by omega)).eq_of_length hl
  · rintro rfl; rfl

theorem extension_getD_suffix (c : Bytes) : (extension c).getD [] <:+ c := by
  cases h : extension c with
  | none => exact List.nil_suffix
  | some aft =>
    obtain ⟨bef, _, hb, _, _⟩ := extension_some h
    exact ⟨bef ++ [DOT], by simp [hb]⟩

theorem toStr_suffix (b : Bytes) : toStr b <:+ b := by
  rcases toStr_eq b with h | h <;> rw [h]
  · exact List.suffix_refl _
  · exact List.nil_suffix

theorem fileName_suffix (b : Bytes) : fileName b <:+ b := by
  unfold fileName; split
  · exact List.nil_suffix
  · exact List.suffix_refl _

theorem stage2_asciiLower (c f : Bytes) (hf : f <:+ c) :
    stage2 (asciiLower c) (asciiLower f) = lowerC (stage2 c f) := by
  have hsuf : trimStartIn junkCharsLead (toStr f) <:+ c :=
    ((trimStartIn_suffix _ _).trans (toStr_suffix f)).trans hf
  have hget : ((extension c).map asciiLower).getD [] = asciiLower ((extension c).getD []) := by
    cases extension c <;> rfl
  have hcmp := asciiLower_inj_suffix hsuf (extension_getD_suffix c)
  unfold stage2
  simp only [toStr_asciiLower, asciiLower_eq_nil, all_dot_asciiLower,
    startsWithIn_asciiLower contains_lowerByte_junkLead,
    trimStartIn_asciiLower contains_lowerByte_junkLead, extension_asciiLower, hget, ne_eq, hcmp,
    fileName_asciiLower]
  by_cases h1 : (¬toStr f = [] ∧ (toStr f).all (· == DOT) = true)
  · simp only [h1]; rfl
  · simp only [h1, if_false]
    by_cases h5 : f = []
    · subst h5
      have ht : toStr ([] : Bytes) = [] := by simp [toStr]
      simp [ht, startsWithIn, lowerC, asciiLower]
    · by_cases h2 : startsWithIn junkCharsLead (toStr f) = true
      · by_cases h3 : trimStartIn junkCharsLead (toStr f) = []
        · simp [h2, h3, lowerC]
        · by_cases h4 : trimStartIn junkCharsLead (toStr f) = (extension c).getD []
          · rw [h4] at h3
            simp [h2, h3, h4, h5, lowerC, asciiLower_eq_nil]
          · by_cases h6 : fileName (trimStartIn junkCharsLead (toStr f)) = []
            · simp [h2, h3, h4, h6, lowerC, asciiLower_eq_nil]
            · simp [h2, h3, h4, h6, lowerC, asciiLower_eq_nil]
      · simp [h2, h5, lowerC, asciiLower_eq_nil]

theorem cleanName_asciiLower (n : Bytes) : cleanName (asciiLower n) = lowerC (cleanName n) := by
  rw [cleanName_eq, cleanName_eq, stage1_asciiLower]
  cases h : stage1 n with
  | none => rfl
  | some p =>
    obtain ⟨c, f⟩ := p
    simp only [Option.map_some]
    exact stage2_asciiLower c f ((stage1_spec h).1 ▸ fileName_suffix c)

theorem suffixOf_asciiLower (c : Bytes) : suffixOf (asciiLower c) = suffixOf c := by
  unfold suffixOf
  rw [extension_asciiLower]
  cases extension c with
  | none => rfl
  | some e => simp only [Option.map_some, Option.getD_some, toStr_asciiLower, asciiLower_idem]

theorem nameStep_asciiLower (f : Bytes) : nameStep (asciiLower f) = nameStep f := by
  unfold nameStep
  simp only [toStr_asciiLower, asciiLower_idem]

theorem stepOf_asciiLower (c f : Bytes) : stepOf (asciiLower c) (asciiLower f) = stepOf c f := by
  unfold stepOf
  rw [suffixOf_asciiLower, nameStep_asciiLower]

theorem step_asciiLower (n : Bytes) : step (asciiLower n) = step n := by
  unfold step
  rw [cleanName_asciiLower]
  cases cleanName n with
  | early => rfl
  | ok c f => exact stepOf_asciiLower c f

theorem classifyAux_asciiLower (ua : Bool) : ∀ (fuel : Nat) (n : Bytes) (fta : Arch),
    classifyAux fuel (asciiLower n) ua fta = classifyAux fuel n ua fta := by
  intro fuel
  induction fuel with
  | zero => intros; rfl
  | succ fuel ih =>
    intro n fta
    rw [classifyAux_succ, classifyAux_succ, step_asciiLower, withExtensionEmpty_asciiLower]
    split
    · rfl
    · rfl
    · exact ih _ _
    · exact ih _ _

theorem classify_asciiLower (n : Bytes) (ua : Bool) : classify (asciiLower n) ua = classify n ua := by
  unfold classify
  rw [asciiLower_length]
  exact classifyAux_asciiLower ua _ _ _

end S4V.Lemmas.Path
