/-
Round-trip lemmas for the chrono-specifier interpreter of `S4V.Model.Cli`
(one per specifier family) and the calendar facts C14 needs. Kept apart from
`S4V/Lemmas/Time.lean`.
-/
import S4V.Model.Cli

namespace S4V.Lemmas.CliTime
open S4V.Model.Cli S4V.Model.Time

/-- an ASCII digit is not white space, so `trim_start` leaves a number alone -/
theorem isWs_of_isDig {c : Char} (h : isDig c = true) : isWs c = false := by
  simp [isDig] at h
  simp [isWs]
  omega

theorem trimStart_digit (c : Char) (r : List Char) (h : isDig c = true) : trimStart (c :: r) = c :: r := by
  simp [trimStart, List.dropWhile, isWs_of_isDig h]

/-- `%m %d %H %M %S` (width 2), `%Y` without sign (width 4), `%3f`/`%6f` (exact width): a field
written with exactly the specifier's width is consumed whole, whatever follows -/
theorem takeDigits_exact (ds rest : List Char) (hd : ∀ c ∈ ds, isDig c = true) :
    takeDigits ds.length (ds ++ rest) = (ds, rest) := by
  induction ds with
  | nil => simp [takeDigits]
  | cons c cs ih =>
    have hc : isDig c = true := hd c (by simp)
    have := ih (fun x hx => hd x (by simp [hx]))
    simp [takeDigits, hc, this]

theorem scanNumber_exact (ds rest : List Char) (min : Nat) (hne : ds ≠ []) (hmin : min ≤ ds.length)
    (hd : ∀ c ∈ ds, isDig c = true) (hv : numVal ds ≤ i64Max) :
    scanNumber (ds ++ rest) min ds.length = some (numVal ds, rest) := by
  have hl : ds.length ≠ 0 := by simpa using hne
  simp only [scanNumber, takeDigits_exact ds rest hd]
  have h1 : ¬ (ds.length < min ∨ ds.length = 0) := by omega
  have h2 : ¬ numVal ds > i64Max := by omega
  simp [h2]
  exact ⟨hmin, hne⟩

/-- a signed `%Y` and `%s` read digits without limit: a field followed by a non-digit (or the end)
is consumed whole -/
theorem takeDigits_stop (ds rest : List Char) (n : Nat) (hd : ∀ c ∈ ds, isDig c = true) (hn : ds.length ≤ n)
    (hr : ∀ c r, rest = c :: r → isDig c = false) :
    takeDigits n (ds ++ rest) = (ds, rest) := by
  induction ds generalizing n with
  | nil =>
    cases n with
    | zero => simp [takeDigits]
    | succ k =>
      cases rest with
      | nil => simp [takeDigits]
      | cons c r => simp [takeDigits, hr c r rfl]
  | cons c cs ih =>
    cases n with
    | zero => simp at hn
    | succ k =>
      have hc : isDig c = true := hd c (by simp)
      have := ih k (fun x hx => hd x (by simp [hx])) (by simpa using hn)
      simp [takeDigits, hc, this]

/-- two digits denote `10·a + b` -/
theorem numVal_two (a b : Char) : numVal [a, b] = digVal a * 10 + digVal b := by
  simp [numVal]

theorem numVal_four (a b c d : Char) :
    numVal [a, b, c, d] = digVal a * 1000 + digVal b * 100 + digVal c * 10 + digVal d := by
  simp [numVal]; omega

/-- `%z` / `%:z` / `%#z` on `±HHMM` -/
theorem scanTz_hhmm (perm : Bool) (sg h1 h2 m1 m2 : Char) (hs : sg = '+' ∨ sg = '-')
    (hh1 : isDig h1 = true) (hh2 : isDig h2 = true) (hm1 : isDig m1 = true) (hm2 : isDig m2 = true)
    (h5 : digVal m1 ≤ 5) :
    scanTz perm [sg, h1, h2, m1, m2] =
      some ((if sg = '-' then -1 else 1) *
        (((digVal h1 * 10 + digVal h2 : Nat) : Int) * 3600 + ((digVal m1 * 10 + digVal m2 : Nat) : Int) * 60), []) := by
  have hm1c : (m1 == ':') = false := by
    simp [isDig] at hm1; simp; intro e; subst e; simp at hm1
  rcases hs with hs | hs <;> subst hs <;>
    simp [scanTz, hh1, hh2, hm1, hm2, h5, List.dropWhile, hm1c, isWs_of_isDig hm1] <;> omega

/-- `%z` / `%:z` / `%#z` on `±HH:MM` (all three accept the colon) -/
theorem scanTz_hh_colon_mm (perm : Bool) (sg h1 h2 m1 m2 : Char) (hs : sg = '+' ∨ sg = '-')
    (hh1 : isDig h1 = true) (hh2 : isDig h2 = true) (hm1 : isDig m1 = true) (hm2 : isDig m2 = true)
    (h5 : digVal m1 ≤ 5) :
    scanTz perm [sg, h1, h2, ':', m1, m2] =
      some ((if sg = '-' then -1 else 1) *
        (((digVal h1 * 10 + digVal h2 : Nat) : Int) * 3600 + ((digVal m1 * 10 + digVal m2 : Nat) : Int) * 60), []) := by
  have hm1c : (m1 == ':') = false := by
    simp [isDig] at hm1; simp; intro e; subst e; simp at hm1
  rcases hs with hs | hs <;> subst hs <;>
    simp [scanTz, hh1, hh2, hm1, hm2, h5, List.dropWhile, hm1c, isWs_of_isDig hm1] <;> omega

/-- only `%#z` accepts `±HH` -/
theorem scanTz_hh (sg h1 h2 : Char) (hs : sg = '+' ∨ sg = '-') (hh1 : isDig h1 = true) (hh2 : isDig h2 = true) :
    scanTz true [sg, h1, h2] =
      some ((if sg = '-' then -1 else 1) * (((digVal h1 * 10 + digVal h2 : Nat) : Int) * 3600), []) ∧
    scanTz false [sg, h1, h2] = none := by
  rcases hs with hs | hs <;> subst hs <;> simp [scanTz, hh1, hh2, List.dropWhile] <;> omega

/-- only `%#z` accepts `Z` / `z` -/
theorem scanTz_zulu : scanTz true ['Z'] = some (0, []) ∧ scanTz true ['z'] = some (0, []) ∧
    scanTz false ['Z'] = none ∧ scanTz false ['z'] = none := by decide

/-- for the years the property speaks of, the era-shifted `civilDays` is `daysFromCivil` -/
theorem civilDays_eq (y m d : Int) (_hy : 0 ≤ y) (_hm1 : 1 ≤ m) (_hm2 : m ≤ 12) :
    civilDays y m d = daysFromCivil y m d := by
  unfold civilDays daysFromCivil
  by_cases h : m ≤ 2
  · simp only [h, if_true]; omega
  · simp only [h, if_false]; omega

/-- every instant of 1970-01-01 … 2099-12-31 (at any real zone) is inside chrono's range -/
theorem inRange_documented (sec : Int) (h1 : -100000 ≤ sec) (h2 : sec ≤ 4102500000) : inRange sec = true := by
  have a : minSec ≤ -100000 := by decide
  have b : (4102500000 : Int) ≤ maxSec := by decide
  simp [inRange]; omega

/-- `%Y` on four digits -/
theorem scanNumber_4 (a b c d : Char) (rest : List Char) (ha : isDig a = true) (hb : isDig b = true)
    (hc : isDig c = true) (hd : isDig d = true) :
    scanNumber (a :: b :: c :: d :: rest) 1 4 = some (numVal [a, b, c, d], rest) := by
  have hv : numVal [a, b, c, d] ≤ i64Max := by
    simp [isDig] at ha hb hc hd
    simp [numVal, digVal, i64Max]; omega
  have := scanNumber_exact [a, b, c, d] rest 1 (by simp) (by simp) (by simp [ha, hb, hc, hd]) hv
  simpa using this

/-- `%m %d %H %M %S` on two digits -/
theorem scanNumber_2 (a b : Char) (rest : List Char) (ha : isDig a = true) (hb : isDig b = true) :
    scanNumber (a :: b :: rest) 1 2 = some (numVal [a, b], rest) := by
  have hv : numVal [a, b] ≤ i64Max := by
    simp [isDig] at ha hb
    simp [numVal, digVal, i64Max]; omega
  have := scanNumber_exact [a, b] rest 1 (by simp) (by simp) (by simp [ha, hb]) hv
  simpa using this

end S4V.Lemmas.CliTime
