/-
Running the regenerated accounting program (`S4V.Model.Summary.SRC`) IS the hand model of `S4V.Model.Print`:
`summaryprint_update_dt` = `SumPr.updateDt`, `summaryprint_update_*` = `SumPr.update`, `summaryprint_map_update_*` =
`mapUpdate`, an arm of `processing_loop` = `account` + `coordAfter`.  Every proof unfolds the generated data.
-/
import S4V.Model.Summary
import S4V.Lemmas.Print

namespace S4V.Lemmas.Summary
open S4V.Model.Print S4V.Model.Summary S4V.Gen.Summary

/-- `summaryprint_update_dt` as regenerated is the hand model's `updateDt` -/
theorem runUpdateDt_src (s : SumPr) (dt : Int) : runUpdateDt SRC s dt = s.updateDt dt := by
  obtain ⟨b, fl, l, sy, fx, ev, j, df, dl⟩ := s
  cases df <;> cases dl <;>
    simp [runUpdateDt, SRC, UPDATE_DT, runOpts, runOpt, assignAll, dtGet, dtSet, evalCmp, SumPr.updateDt] <;>
    (repeat' split) <;> simp_all <;> omega

/-- `summaryprint_update_<k>` as regenerated is the hand model's `update` -/
theorem runUpdate_src (k : Kind) (env : Vals) (s : SumPr) :
    runUpdate SRC (kOf k) env s = s.update k env.nlines env.printed env.flushed env.dt := by
  have h := fun s' => runUpdateDt_src s' env.dt
  cases k <;>
    simp [runUpdate, kOf, SRC, UPDATE, UPDATE_SYSLINE, UPDATE_FIXEDSTRUCT, UPDATE_EVTX, UPDATE_JOURNALENTRY, runStmt,
      bump, evalE, SumPr.update] <;>
    (rw [show runUpdateDt ⟨UPDATE_DT, UPDATE, MAP_UPDATE, LOOP, NEW, NL_LEN⟩ = runUpdateDt SRC from rfl, h])

theorem fresh_src : fresh SRC = {} := by decide

/-- `summaryprint_map_update_<k>` as regenerated is the hand model's `mapUpdate` -/
theorem runMapUpd_src (k : Kind) (env : Vals) (pid : Nat) (mp : List (Nat × SumPr)) :
    runMapUpd SRC (SRC.mapUpdate (kOf k)) env pid mp = mapUpdate mp pid k env.nlines env.printed env.flushed env.dt := by
  have hc : ∀ s, runCall SRC env s ⟨kOf k, .printed, .flushed⟩ = s.update k env.nlines env.printed env.flushed env.dt := by
    intro s; simp only [runCall, evalE]; exact runUpdate_src k env s
  induction mp with
  | nil =>
    cases k <;>
      simp [runMapUpd, SRC, MAP_UPDATE, MAP_UPDATE_SYSLINE, MAP_UPDATE_FIXEDSTRUCT, MAP_UPDATE_EVTX, MAP_UPDATE_JOURNALENTRY,
        kOf, mapUpdate] <;>
      (first
        | (have := hc (fresh SRC); simp only [kOf, SRC] at this; rw [this, show fresh ⟨UPDATE_DT, UPDATE, MAP_UPDATE, LOOP, NEW, NL_LEN⟩ = fresh SRC from rfl, fresh_src]))
  | cons x r ih =>
    obtain ⟨q, s⟩ := x
    by_cases hq : q = pid
    · cases k <;>
        simp [runMapUpd, hq, SRC, MAP_UPDATE, MAP_UPDATE_SYSLINE, MAP_UPDATE_FIXEDSTRUCT, MAP_UPDATE_EVTX, MAP_UPDATE_JOURNALENTRY,
          kOf, mapUpdate] <;>
        (have := hc s; simp only [kOf, SRC] at this; exact this)
    · simp only [runMapUpd, hq, if_false, mapUpdate]; rw [ih]

end S4V.Lemmas.Summary
