/-
The loop invariant of `S4V.Lemmas.Mem` generalised from the geometry `Straddling M` (one message per
block boundary) to every geometry that excludes the two known growth mechanisms:

`Geometry M B P msgs` : every message has between 1 and `M` lines and lies inside at most `B`
consecutive blocks, messages follow one another in file order, and at most `P` messages start in
any one block (`P` is bounded by the block size in bytes; it is what keeps "any number of messages
per block" finite).  `Crossed msgs` : every block boundary below the last block of the file is
crossed by a line — i.e. no line ends exactly where a block ends (the F25 mechanism; needed on a
plain file only, a streamed reader drops blocks by its look-back).  The consumer is `prompt`
(the F8 mechanism is a consumer that still holds messages).

Result (`runG_bounded`): with `S = P (B + 1) + 2`, for EVERY number of messages
  syslines high ≤ S,  lines high ≤ M S + 1,  blocks high ≤ 5 B − 3 (plain) / 2 (streamed).
The invariant carries two parameters: `G` — no drop can have run while `fb (k - 2) ≤ G` (1 for
`S4V.Model.Mem`, 2 for `S4V.Model.MemSkip`, whose first target 0 is skipped) — and the width
`W ≥ max B G` of the window of stored messages; `runSG_bounded` is the `G = 2`, `W = max B 2` instance.
Also here: the three lower bounds, general in the number of messages (`runG_keeps_all` / `aligned_keeps_all`
for uncrossed block ends, `runG_lagging_grows` for a lagging consumer) and `Straddling.geometry`.
-/
import S4V.Model.Mem
import S4V.Model.MemSkip
import S4V.Lemmas.Mem

namespace S4V.Lemmas.MemGeneral
open S4V.Model.Mem S4V.Model.MemSkip S4V.Gen.Consts S4V.Gen.Stream S4V.Gen.Blocks S4V.Lemmas.Mem

/-- first block of message `j` (`blockoffset_first`) -/
def fb (msgs : List Msg) (j : Nat) : Nat := (msgs.getD j []).first
/-- last block of message `j` (`blockoffset_last`) -/
def lb (msgs : List Msg) (j : Nat) : Nat := (msgs.getD j []).last

/-- the geometries covered: any number of messages; each has `1 ..= M` lines, all inside the blocks
`fb j ..= lb j` with `lb j < fb j + B` (spans at most `B` blocks); message `j + 1` does not start
before the block in which message `j` ends; among any `P + 1` consecutive messages two start in
different blocks (at most `P` messages start in one block) -/
structure Geometry (M B P : Nat) (msgs : List Msg) : Prop where
  ppos : 0 < P
  len : ∀ j, j < msgs.length → 0 < (msgs.getD j []).length ∧ (msgs.getD j []).length ≤ M
  inside : ∀ j, j < msgs.length → ∀ ln ∈ msgs.getD j [], fb msgs j ≤ ln.f ∧ ln.f ≤ ln.l ∧ ln.l ≤ lb msgs j
  span : ∀ j, j < msgs.length → lb msgs j < fb msgs j + B
  mono : ∀ j, j < msgs.length - 1 → lb msgs j ≤ fb msgs (j + 1)
  dense : ∀ j, j < msgs.length - P → fb msgs j < fb msgs (j + P)

instance (M B P : Nat) (msgs : List Msg) : Decidable (Geometry M B P msgs) :=
  decidable_of_iff
    (0 < P
      ∧ (∀ j, j < msgs.length → 0 < (msgs.getD j []).length ∧ (msgs.getD j []).length ≤ M)
      ∧ (∀ j, j < msgs.length → ∀ ln ∈ msgs.getD j [], fb msgs j ≤ ln.f ∧ ln.f ≤ ln.l ∧ ln.l ≤ lb msgs j)
      ∧ (∀ j, j < msgs.length → lb msgs j < fb msgs j + B)
      ∧ (∀ j, j < msgs.length - 1 → lb msgs j ≤ fb msgs (j + 1))
      ∧ (∀ j, j < msgs.length - P → fb msgs j < fb msgs (j + P)))
    ⟨fun ⟨a, b, c, d, e, f⟩ => ⟨a, b, c, d, e, f⟩, fun h => ⟨h.ppos, h.len, h.inside, h.span, h.mono, h.dense⟩⟩

/-- every block boundary below the last block of the file is crossed by a line: no line ends on the
last byte of a block (other than, possibly, the last line of the file) -/
def Crossed (msgs : List Msg) : Prop :=
  ∀ c, c < lb msgs (msgs.length - 1) →
    ∃ j, j < msgs.length ∧ ∃ ln ∈ msgs.getD j [], ln.f ≤ c ∧ c < ln.l

instance (msgs : List Msg) : Decidable (Crossed msgs) := by
  unfold Crossed; infer_instance

/-- `syslines` bound -/
def sBound (B P : Nat) : Nat := P * (B + 1) + 2
/-- `lines` bound -/
def lBound (M B P : Nat) : Nat := M * sBound B P + 1
/-- `blocks` bound of a plain file -/
def bBound (B : Nat) : Nat := 5 * B - 3
/-- … in terms of the width `W ≥ B` of the window of stored messages -/
def bBoundW (B W : Nat) : Nat := 4 * B - 3 + W

/-! ### order facts of a geometry -/

section geo
variable {M B P : Nat} {msgs : List Msg}

theorem Geometry.exists_line (h : Geometry M B P msgs) {j : Nat} (hj : j < msgs.length) :
    ∃ ln, ln ∈ msgs.getD j [] := by
  have := (h.len j hj).1
  match hm : msgs.getD j [] with
  | [] => rw [hm] at this; exact absurd this (by simp)
  | ln :: _ => exact ⟨ln, by simp⟩

theorem Geometry.fl (h : Geometry M B P msgs) {j : Nat} (hj : j < msgs.length) : fb msgs j ≤ lb msgs j := by
  obtain ⟨ln, hln⟩ := h.exists_line hj
  have := h.inside j hj ln hln
  omega

theorem Geometry.fmono_aux (h : Geometry M B P msgs) (i : Nat) : ∀ d, i + d < msgs.length →
    fb msgs i ≤ fb msgs (i + d) ∧ lb msgs i ≤ lb msgs (i + d)
  | 0, _ => ⟨Nat.le_refl _, Nat.le_refl _⟩
  | d + 1, hj => by
    have ih := h.fmono_aux i d (by omega)
    have h1 := h.fl (j := i + d) (by omega)
    have h2 := h.mono (i + d) (by omega)
    have hj' : i + d + 1 < msgs.length := by omega
    have h3 := h.fl hj'
    have e : i + (d + 1) = i + d + 1 := by omega
    rw [e]
    omega

theorem Geometry.fmono (h : Geometry M B P msgs) {i j : Nat} (hij : i ≤ j) (hj : j < msgs.length) :
    fb msgs i ≤ fb msgs j ∧ lb msgs i ≤ lb msgs j := by
  have := h.fmono_aux i (j - i) (by omega)
  have e : i + (j - i) = j := by omega
  rw [e] at this
  exact this

theorem Geometry.bpos (h : Geometry M B P msgs) {j : Nat} (hj : j < msgs.length) : 1 ≤ B := by
  have := h.fl hj
  have := h.span j hj
  omega

theorem Geometry.dense_iter (h : Geometry M B P msgs) : ∀ (w j : Nat), j + P * w < msgs.length →
    fb msgs j + w ≤ fb msgs (j + P * w)
  | 0, j, _ => by simp
  | w + 1, j, hj => by
    have e : j + P * (w + 1) = (j + P * w) + P := by rw [Nat.mul_succ]; omega
    have ih := h.dense_iter w j (by rw [e] at hj; omega)
    have := h.dense (j + P * w) (by rw [e] at hj; omega)
    rw [e]
    omega

/-- at most `P (W + 1)` messages start in `W + 1` consecutive blocks -/
theorem Geometry.count (h : Geometry M B P msgs) {a b W : Nat} (_hab : a ≤ b) (hb : b < msgs.length)
    (hW : fb msgs b ≤ fb msgs a + W) : b < a + P * (W + 1) := by
  apply Classical.byContradiction
  intro hn
  have h1 := h.dense_iter (W + 1) a (by omega)
  have h2 := (h.fmono (i := a + P * (W + 1)) (j := b) (by omega) hb).1
  omega

/-- the window of messages still stored: `j ≤ k` not yet behind the drop target of message `k - 2`, or
no drop has run yet (`fb (k - 2) ≤ G`) -/
theorem Geometry.win (h : Geometry M B P msgs) {G W j k : Nat} (hWB : B ≤ W) (hWG : G ≤ W) (hk : k < msgs.length)
    (hjk : j ≤ k) (hw : fb msgs (k - 2) < lb msgs j + 2 ∨ fb msgs (k - 2) ≤ G) : k ≤ j + P * (W + 1) + 1 := by
  by_cases hj : j + 2 ≤ k
  · have hs := h.span j (by omega)
    have := h.count (a := j) (b := k - 2) (W := W) (by omega) (by omega) (by omega)
    omega
  · omega

theorem lb_nil {msgs : List Msg} {j : Nat} (hj : msgs.length ≤ j) : lb msgs j = 0 := by
  unfold lb
  rw [getD_len_nil msgs j hj]
  rfl

theorem Geometry.last_mem (h : Geometry M B P msgs) {j : Nat} (hj : j < msgs.length) :
    ∃ ln, ln ∈ msgs.getD j [] ∧ ln.l = lb msgs j := by
  have hlen := (h.len j hj).1
  have hne : msgs.getD j [] ≠ [] := by
    intro he; rw [he] at hlen; exact absurd hlen (by simp)
  refine ⟨(msgs.getD j []).getLast hne, List.getLast_mem hne, ?_⟩
  unfold lb Msg.last
  rw [List.getLast?_eq_some_getLast hne]
  rfl

/-! ### consequences of `Crossed` -/

theorem Geometry.next_le (h : Geometry M B P msgs) (hc : Crossed msgs) {j : Nat} (hj : j + 1 < msgs.length) :
    fb msgs (j + 1) ≤ lb msgs j := by
  apply Classical.byContradiction
  intro hn
  have h1 := h.fl hj
  have h2 := (h.fmono (i := j + 1) (j := msgs.length - 1) (by omega) (by omega)).2
  obtain ⟨j', hj', ln, hln, hf, hl⟩ := hc (lb msgs j) (by omega)
  have hin := h.inside j' hj' ln hln
  by_cases hle : j' ≤ j
  · have := (h.fmono hle (by omega)).2
    omega
  · have := (h.fmono (i := j + 1) (j := j') (by omega) hj').1
    omega

theorem Geometry.first_zero (h : Geometry M B P msgs) (hc : Crossed msgs) (hn : 0 < msgs.length) :
    fb msgs 0 = 0 := by
  apply Classical.byContradiction
  intro hne
  have h1 := h.fl hn
  have h2 := (h.fmono (i := 0) (j := msgs.length - 1) (by omega) (by omega)).2
  obtain ⟨j', hj', ln, hln, hf, hl⟩ := hc 0 (by omega)
  have hin := h.inside j' hj' ln hln
  have := (h.fmono (i := 0) (j := j') (by omega) hj').1
  omega

theorem Geometry.first_pred (h : Geometry M B P msgs) (hc : Crossed msgs) {j : Nat} (hj : j < msgs.length) :
    fb msgs j ≤ fb msgs (j - 1) + (B - 1) := by
  match j, hj with
  | 0, _ => simp
  | i + 1, hj =>
    have := h.next_le hc hj
    have := h.span i (by omega)
    simp only [Nat.add_sub_cancel]
    omega

end geo

/-! ### counting lines in a window of messages -/

theorem win_list_length (M lo : Nat) : ∀ W : Nat,
    ((List.range W).flatMap fun d => (List.range M).map fun i => (lo + d, i)).length = M * W
  | 0 => by simp
  | W + 1 => by
    rw [List.range_succ, List.flatMap_append, List.length_append, win_list_length M lo W]
    simp [Nat.mul_succ]

/-- pairs `(j, i)` with `j` in the window `lo ..< lo + W`, `i < M`, or the one pair `q` -/
theorem lines_count_win (M lo W : Nat) (q : Nat × Nat) (l : List (Nat × Nat)) (hn : l.Nodup)
    (h : ∀ p ∈ l, (p.2 < M ∧ lo ≤ p.1 ∧ p.1 < lo + W) ∨ p = q) : l.length ≤ M * W + 1 := by
  let Wl : List (Nat × Nat) := q :: ((List.range W).flatMap fun d => (List.range M).map fun i => (lo + d, i))
  have hsub : l ⊆ Wl := by
    intro p hp
    rcases h p hp with ⟨h1, h2, h3⟩ | h1
    · refine List.mem_cons_of_mem _ (List.mem_flatMap.2 ⟨p.1 - lo, List.mem_range.2 (by omega), ?_⟩)
      refine List.mem_map.2 ⟨p.2, List.mem_range.2 h1, ?_⟩
      have : lo + (p.1 - lo) = p.1 := by omega
      rw [this]
    · rw [h1]; exact List.mem_cons_self
  have hlen : Wl.length = M * W + 1 := by
    simp only [Wl, List.length_cons, win_list_length]
  have := List.Nodup.length_le_of_subset hn hsub
  omega

/-! ### `readUpTo`: where stored blocks come from -/

theorem readUpTo_blocks_mem (b : Nat) : ∀ (fuel : Nat) (st : St) (c : Nat),
    c ∈ (readUpTo false fuel st b).blocks → c ∈ st.blocks ∨ st.nread ≤ c
  | 0, st, c, h => by simp [readUpTo] at h; exact Or.inl h
  | fuel + 1, st, c, h => by
    unfold readUpTo at h
    split at h
    · have := readUpTo_blocks_mem b fuel _ c h
      simp only [Bool.false_and, Bool.false_eq_true, if_false, List.mem_cons] at this
      rcases this with (rfl | h1) | h1
      · exact Or.inr (Nat.le_refl _)
      · exact Or.inl h1
      · exact Or.inr (by omega)
    · exact Or.inl h

/-! ### the invariant -/

/-- highest block touched by `findMsg k`, plus one -/
def hiOf (msgs : List Msg) (k : Nat) : Nat := max (lb msgs k) (lb msgs (k + 1)) + 1

/-- the `blocks` map of a plain file: descending keys below `nread`; a block whose end is crossed by a
line of message `j` is stored only while message `j` is (`j ∈ syslines`) or has not been found yet -/
structure PB (msgs : List Msg) (k Bd : Nat) (st : St) : Prop where
  desc : st.blocks.Pairwise (· > ·)
  lt : ∀ c ∈ st.blocks, c < st.nread
  high : st.bHigh ≤ Bd
  cross : ∀ c ∈ st.blocks, ∀ j, j < msgs.length → ∀ ln ∈ msgs.getD j [], ln.f ≤ c → c < ln.l →
    j ∈ st.syslines ∨ k ≤ j

/-- at the head of iteration `k` -/
structure Inv (streamed : Bool) (msgs : List Msg) (M B P G W k : Nat) (st : St) : Prop where
  b : (streamed = false ∧ Crossed msgs) → PB msgs k (bBoundW B W) st ∧ st.nread ≤ lb msgs k + 1
  nread_ge : ∀ j, j < k → lb msgs j < st.nread
  sdesc : st.syslines.Pairwise (· > ·)
  smem : ∀ j ∈ st.syslines, j < k ∧ (fb msgs (k - 2) < lb msgs j + 2 ∨ fb msgs (k - 2) ≤ G)
  shigh : st.sHigh ≤ sBound W P
  l : LOk (fun p => p.2 < (msgs.getD p.1 []).length ∧ (p.1 ∈ st.syslines ∨ (p.1 = k ∧ p.2 = 0))) (lBound M W P) st

/-- after `findMsg k` -/
structure Mid (streamed : Bool) (msgs : List Msg) (M B P G W k : Nat) (st : St) : Prop where
  b : (streamed = false ∧ Crossed msgs) → PB msgs (k + 1) (bBoundW B W) st ∧ st.nread ≤ hiOf msgs k
  nread_ge : ∀ j, j ≤ k → lb msgs j < st.nread
  sdesc : st.syslines.Pairwise (· > ·)
  smem : ∀ j ∈ st.syslines, j ≤ k ∧ (fb msgs (k - 2) < lb msgs j + 2 ∨ fb msgs (k - 2) ≤ G)
  shigh : st.sHigh ≤ sBound W P
  l : LOk (fun p => p.2 < (msgs.getD p.1 []).length ∧ (p.1 ∈ st.syslines ∨ (p.1 = k + 1 ∧ p.2 = 0))) (lBound M W P) st

section inv
variable {M B P G W : Nat} {msgs : List Msg}

/-- every stored block lies at most `W` blocks behind the first block of message `k - 2` -/
theorem PB.lo_le (hG : Geometry M B P msgs) (hc : Crossed msgs) (hWB : B ≤ W) (hWG : G ≤ W) {k Bd : Nat} {st : St}
    (hk : k < msgs.length) (h : PB msgs k Bd st)
    (hs : ∀ j ∈ st.syslines, j < k ∧ (fb msgs (k - 2) < lb msgs j + 2 ∨ fb msgs (k - 2) ≤ G)) :
    ∀ c ∈ st.blocks, fb msgs (k - 2) - W ≤ c := by
  intro c hcm
  by_cases hlt : c < lb msgs (msgs.length - 1)
  · obtain ⟨j, hj, ln, hln, hf, hl⟩ := hc c hlt
    have hin := hG.inside j hj ln hln
    rcases h.cross c hcm j hj ln hln hf hl with h1 | h1
    · have := hG.span j hj
      rcases (hs j h1).2 with h2 | h2 <;> omega
    · have := (hG.fmono (i := k - 2) (j := j) (by omega) hj).1
      omega
  · have h1 := hG.fl (j := msgs.length - 1) (by omega)
    have h2 := (hG.fmono (i := k - 2) (j := msgs.length - 1) (by omega) (by omega)).1
    omega

/-- the window of blocks `findMsg k` works in has width at most `4 B − 3 + W` -/
theorem width_le (hG : Geometry M B P msgs) (hc : Crossed msgs) {k : Nat} (hk : k < msgs.length) :
    hiOf msgs k - (fb msgs (k - 2) - W) ≤ bBoundW B W := by
  have hB := hG.bpos hk
  have p1 := hG.first_pred hc hk
  have p2 := hG.first_pred hc (j := k - 1) (by omega)
  have e : k - 1 - 1 = k - 2 := by omega
  rw [e] at p2
  have s1 := hG.span k hk
  unfold hiOf bBoundW
  by_cases hk1 : k + 1 < msgs.length
  · have p0 := hG.first_pred hc hk1
    simp only [Nat.add_sub_cancel] at p0
    have s0 := hG.span (k + 1) hk1
    have := (hG.fmono (i := k) (j := k + 1) (by omega) hk1).2
    omega
  · have := lb_nil (msgs := msgs) (j := k + 1) (by omega)
    omega

theorem findMsg_inv {streamed : Bool} {k : Nat} {st : St} (hG : Geometry M B P msgs) (hWB : B ≤ W) (hWG : G ≤ W)
    (hk : k < msgs.length) (h : Inv streamed msgs M B P G W k st) :
    Mid streamed msgs M B P G W k (findMsg streamed msgs st k) := by
  let lo := k - 1 - P * (W + 1)
  let A' : Nat × Nat → Prop := fun p =>
    p.2 < (msgs.getD p.1 []).length ∧ (p.1 ∈ st.syslines ∨ p.1 = k ∨ (p.1 = k + 1 ∧ p.2 = 0))
  have hwin : ∀ j ∈ st.syslines, lo ≤ j := by
    intro j hj
    have := h.smem j hj
    have := hG.win hWB hWG hk (by omega) this.2
    omega
  have hcount : ∀ l : List (Nat × Nat), l.Nodup → (∀ p ∈ l, A' p) → l.length ≤ lBound M W P := by
    intro l hn hm
    apply lines_count_win M lo (sBound W P) (k + 1, 0) l hn
    intro p hp
    obtain ⟨h1, h2⟩ := hm p hp
    unfold sBound
    rcases h2 with h2 | h2 | h2
    · have := h.smem p.1 h2
      have := hwin p.1 h2
      have := (hG.len p.1 (by omega)).2
      left; omega
    · have := (hG.len p.1 (by omega)).2
      left; omega
    · right; exact Prod.ext h2.1 h2.2
  let bl := fb msgs (k - 2) - W
  let Pr : St → Prop := fun s =>
    ((streamed = false ∧ Crossed msgs) → BOk bl (hiOf msgs k) (bBoundW B W) s ∧ (∀ c ∈ s.blocks, c ∈ st.blocks ∨ st.nread ≤ c))
    ∧ LOk A' (lBound M W P) s
  have hP0 : Pr st := by
    refine ⟨fun hs => ⟨?_, fun c hcm => Or.inl hcm⟩, h.l.weaken ?_⟩
    · obtain ⟨pb, hnr⟩ := h.b hs
      refine ⟨pb.desc, fun c hcm => ⟨PB.lo_le hG hs.2 hWB hWG hk pb h.smem c hcm, pb.lt c hcm⟩, ?_, ?_, pb.high⟩
      · show fb msgs (k - 2) - W ≤ st.nread
        by_cases hk0 : k = 0
        · subst hk0
          have := hG.first_zero hs.2 hk
          simp only [Nat.zero_sub]
          omega
        · have := h.nread_ge (k - 1) (by omega)
          have := hG.fl (j := k - 1) (by omega)
          have := (hG.fmono (i := k - 2) (j := k - 1) (by omega) (by omega)).1
          omega
      · unfold hiOf; omega
    · intro p hp
      refine ⟨hp.1, ?_⟩
      rcases hp.2 with h2 | h2
      · exact Or.inl h2
      · exact Or.inr (Or.inl h2.1)
  have hstep : ∀ s x, x ∈ look msgs k → (Pr s ∧ st.nread ≤ s.nread) →
      (Pr (findStep streamed s x) ∧ st.nread ≤ (findStep streamed s x).nread) := by
    intro s x hx ⟨hPs, hnr⟩
    have hfr := readUpTo_frame streamed x.2.2.l (x.2.2.l + 1) s
    have hfa := addLine_frame (readUpTo streamed (x.2.2.l + 1) s x.2.2.l) (x.1, x.2.1)
    have hl : x.2.2.l + 1 ≤ hiOf msgs k ∧ A' (x.1, x.2.1) := by
      rcases mem_look hx with ⟨h1, h2, h3⟩ | ⟨h1, h2, h3⟩
      · have := (hG.inside k hk _ h3).2.2
        refine ⟨by unfold hiOf; omega, ?_, Or.inr (Or.inl h1)⟩
        simp only [h1]; exact h2
      · obtain ⟨hlt, hm⟩ := head_mem_lt h3
        have := (hG.inside (k + 1) hlt _ hm).2.2
        refine ⟨by unfold hiOf; omega, ?_, Or.inr (Or.inr ⟨h1, h2⟩)⟩
        simp only [h1, h2]
        exact List.length_pos_of_mem hm
    unfold findStep
    refine ⟨⟨fun hs => ?_, addLine_LOk hcount _ _ hl.2 (hPs.2.congr hfr.1 hfr.2.1)⟩, ?_⟩
    · obtain ⟨hs1, hs2⟩ := hs
      subst hs1
      obtain ⟨hb1, hb2⟩ := hPs.1 ⟨rfl, hs2⟩
      refine ⟨(readUpTo_plain_BOk (width_le (W := W) hG hs2 hk) hl.1 _ s hb1).congr hfa.1 hfa.2.1 hfa.2.2.1, ?_⟩
      intro c hcm
      rw [hfa.1] at hcm
      rcases readUpTo_blocks_mem _ _ s c hcm with h1 | h1
      · exact hb2 c h1
      · exact Or.inr (by omega)
    · rw [hfa.2.1]
      have := hfr.2.2.2.2
      omega
  have hP := foldl_inv (fun s => Pr s ∧ st.nread ≤ s.nread) (findStep streamed) (look msgs k) st hstep
    ⟨hP0, Nat.le_refl _⟩
  have hfr := foldStep_frame streamed (look msgs k) st
  obtain ⟨lnl, hlnl, hlnl2⟩ := hG.last_mem hk
  obtain ⟨i, hi⟩ := look_of_mem hlnl
  have hnr := foldStep_nread_ge streamed (look msgs k) st _ hi
  rw [findMsg_eq]
  have hss : ((look msgs k).foldl (findStep streamed) st).syslines = st.syslines := hfr.1
  have hlen : (k :: st.syslines).length ≤ sBound W P := by
    have := desc_length_le (k :: st.syslines) lo (k + 1)
      (by simp only [List.pairwise_cons]; exact ⟨fun j hj => (h.smem j hj).1, h.sdesc⟩)
      (fun c hcm => by
        rcases List.mem_cons.1 hcm with rfl | hcm
        · omega
        · have := hwin c hcm; have := (h.smem c hcm).1; omega)
    unfold sBound
    omega
  refine ⟨fun hs => ?_, ?_, ?_, ?_, ?_, ?_⟩
  · obtain ⟨hb1, hb2⟩ := hP.1.1 hs
    obtain ⟨pb, _⟩ := h.b hs
    refine ⟨⟨hb1.desc, fun c hcm => (hb1.mem c hcm).2, hb1.high, ?_⟩, hb1.le_hi⟩
    intro c hcm j hj ln hln hf hl
    simp only [hss, List.mem_cons]
    rcases hb2 c hcm with h1 | h1
    · rcases pb.cross c h1 j hj ln hln hf hl with h2 | h2
      · exact Or.inl (Or.inr h2)
      · by_cases hjk : j = k
        · exact Or.inl (Or.inl hjk)
        · exact Or.inr (by omega)
    · by_cases hjk : j < k
      · have := h.nread_ge j hjk
        have := (hG.inside j hj ln hln).2.2
        omega
      · by_cases hjk' : j = k
        · exact Or.inl (Or.inl hjk')
        · exact Or.inr (by omega)
  · intro j hj
    have hmono := hP.2
    by_cases hjk : j < k
    · have := h.nread_ge j hjk
      simp only
      omega
    · have : j = k := by omega
      subst this
      simp only at hnr ⊢
      omega
  · simp only [hss, List.pairwise_cons]
    exact ⟨fun j hj => (h.smem j hj).1, h.sdesc⟩
  · intro j hj
    simp only [hss, List.mem_cons] at hj
    rcases hj with rfl | hj
    · refine ⟨Nat.le_refl _, Or.inl ?_⟩
      have := (hG.fmono (i := j - 2) (j := j) (by omega) hk).1
      have := hG.fl hk
      omega
    · have := h.smem j hj
      exact ⟨by omega, this.2⟩
  · have := h.shigh
    simp only [hss, hfr.2.1]
    omega
  · refine LOk.weaken (A := A') (hP.1.2.congr rfl rfl) ?_
    intro p hp
    refine ⟨hp.1, ?_⟩
    simp only [hss, List.mem_cons]
    rcases hp.2 with h2 | h2 | h2
    · exact Or.inl (Or.inr h2)
    · exact Or.inl (Or.inl h2)
    · exact Or.inr h2

/-- no drop, or a drop that found nothing: the state after `findMsg k` is a head state of `k + 1`
as soon as every stored message is still ahead of the target of message `k - 1`, or no drop can
have run yet -/
theorem Mid.to_Inv_nodrop {streamed : Bool} {k : Nat} {st : St} (hG : Geometry M B P msgs)
    (hk : k + 1 < msgs.length) (h : Mid streamed msgs M B P G W k st)
    (hw : ∀ j ∈ st.syslines, fb msgs (k - 1) < lb msgs j + 2 ∨ fb msgs (k - 1) ≤ G) :
    Inv streamed msgs M B P G W (k + 1) st := by
  have e : k + 1 - 2 = k - 1 := by omega
  refine ⟨fun hs => ⟨(h.b hs).1, ?_⟩, fun j hj => h.nread_ge j (by omega), h.sdesc, ?_, h.shigh, h.l⟩
  · have := (h.b hs).2
    have := (hG.fmono (i := k) (j := k + 1) (by omega) hk).2
    unfold hiOf at *
    omega
  · intro j hj
    rw [e]
    exact ⟨by have := (h.smem j hj).1; omega, hw j hj⟩

/-- `DROP_TRY_GUARD`, `DROP_TRY_BACK` as extracted: `if bo_first > 1 { drop_data(bo_first - 2) }`;
`drop_block_last` starts at 0 -/
theorem drop_try_consts : DROP_TRY_GUARD = 1 ∧ DROP_TRY_BACK = 2 ∧ DROP_BLOCK_LAST_INIT = 0 := ⟨rfl, rfl, rfl⟩

/-- a drop that runs (its guard holds): afterwards every stored message is ahead of the target -/
theorem dropTryG_inv {streamed : Bool} {k : Nat} {st : St} (hG : Geometry M B P msgs)
    (hk : k + 1 < msgs.length) (hk1 : k ≥ 1) (h : Mid streamed msgs M B P G W k st)
    (hg : (msgs.getD (k - 1) []).first > DROP_TRY_GUARD) :
    Inv streamed msgs M B P G W (k + 1) (dropTryG true msgs (heldPrompt k) st (k - 1)) := by
  have hle : ∀ j ∈ st.syslines, j ≤ k := fun j hj => (h.smem j hj).1
  have spec := dropTryG_spec msgs st k (k - 1) hg hle
  have ht : (msgs.getD (k - 1) []).first - DROP_TRY_BACK = fb msgs (k - 1) - 2 := by
    rw [drop_try_consts.2.1]; rfl
  simp only [ht] at spec
  have hg' : fb msgs (k - 1) > 1 := by
    rw [drop_try_consts.1] at hg; exact hg
  obtain ⟨e1, e2, e3, e4, e5, e6, e7, e8, e9⟩ := spec
  have e : k + 1 - 2 = k - 1 := by omega
  have hkeep : ∀ j, j ∈ (dropTryG true msgs (heldPrompt k) st (k - 1)).syslines ↔
      j ∈ st.syslines ∧ fb msgs (k - 1) < lb msgs j + 2 := by
    intro j
    rw [e1, List.mem_filter]
    simp only [Bool.not_eq_true', decide_eq_false_iff_not]
    constructor
    · rintro ⟨h1, h2⟩
      refine ⟨h1, ?_⟩
      have : ¬ lb msgs j ≤ fb msgs (k - 1) - 2 := h2
      omega
    · rintro ⟨h1, h2⟩
      refine ⟨h1, ?_⟩
      show ¬ lb msgs j ≤ fb msgs (k - 1) - 2
      omega
  refine ⟨fun hs => ?_, ?_, ?_, ?_, by rw [e9]; exact h.shigh,
      ⟨h.l.nodup.sublist e3, ?_, by rw [e8]; exact h.l.high⟩⟩
  · obtain ⟨pb, hnr⟩ := h.b hs
    refine ⟨⟨pb.desc.sublist e5, ?_, by rw [e7]; exact pb.high, ?_⟩, ?_⟩
    · intro c hcm
      rw [e6]
      exact pb.lt c (e5.subset hcm)
    · intro c hcm j hj ln hln hf hl
      obtain ⟨hc1, hc2⟩ := (e4 c).1 hcm
      rcases pb.cross c hc1 j hj ln hln hf hl with h1 | h1
      · left
        rw [hkeep]
        refine ⟨h1, ?_⟩
        apply Classical.byContradiction
        intro hv
        apply hc2
        refine ⟨j, ⟨h1, ?_⟩, ln, hln, hf, hl⟩
        show lb msgs j ≤ fb msgs (k - 1) - 2
        omega
      · exact Or.inr h1
    · rw [e6]
      have := (hG.fmono (i := k) (j := k + 1) (by omega) hk).2
      unfold hiOf at hnr
      omega
  · intro j hj
    rw [e6]
    exact h.nread_ge j (by omega)
  · rw [e1]
    exact h.sdesc.filter _
  · intro j hj
    rw [e]
    have := (hkeep j).1 hj
    exact ⟨by have := (h.smem j this.1).1; omega, Or.inl this.2⟩
  · intro p hp
    obtain ⟨hp1, hp2⟩ := (e2 p).1 hp
    have hA := h.l.mem p hp1
    refine ⟨hA.1, ?_⟩
    rcases hA.2 with h2 | h2
    · left
      rw [hkeep]
      refine ⟨h2, ?_⟩
      apply Classical.byContradiction
      intro hv
      apply hp2
      refine ⟨⟨h2, ?_⟩, hA.1⟩
      show lb msgs p.1 ≤ fb msgs (k - 1) - 2
      omega
    · exact Or.inr h2

/-- iteration 0 has no drop -/
theorem Mid.to_Inv_zero {streamed : Bool} {st : St} (hG : Geometry M B P msgs)
    (hk : 0 + 1 < msgs.length) (h : Mid streamed msgs M B P G W 0 st) : Inv streamed msgs M B P G W (0 + 1) st := by
  apply h.to_Inv_nodrop hG hk
  intro j hj
  have hj0 := (h.smem j hj).1
  have : j = 0 := by omega
  subst this
  have := hG.fl (j := 0) (by omega)
  left
  simp only [Nat.zero_sub]
  omega

/-- the drop of `S4V.Model.Mem` (guard `bo_first > 1`) -/
theorem dropStep_inv {streamed : Bool} {k : Nat} {st : St} (hG : Geometry M B P msgs) (hG1 : 1 ≤ G)
    (hk : k + 1 < msgs.length) (h : Mid streamed msgs M B P G W k st) :
    Inv streamed msgs M B P G W (k + 1) (dropStep true msgs prompt k st) := by
  unfold dropStep
  by_cases hk1 : k ≥ 1
  · rw [if_pos hk1]
    show Inv streamed msgs M B P G W (k + 1) (dropTryG true msgs (heldPrompt k) st (k - 1))
    by_cases hg : (msgs.getD (k - 1) []).first > DROP_TRY_GUARD
    · exact dropTryG_inv hG hk hk1 h hg
    · rw [dropTryG_noguard _ _ _ _ _ hg]
      apply h.to_Inv_nodrop hG hk
      intro j hj
      have : ¬ fb msgs (k - 1) > 1 := by
        rw [drop_try_consts.1] at hg; exact hg
      right; omega
  · rw [if_neg hk1]
    have hk0 : k = 0 := by omega
    subst hk0
    exact h.to_Inv_zero hG hk

/-- the drop that follows sending message `k` in `S4V.Model.MemSkip` -/
def dropStepS (visitAll : Bool) (msgs : List Msg) (lag : Nat → Nat) (k : Nat) (st : St) : St :=
  if k ≥ 1 then dropTryS visitAll msgs (fun j => decide (k < j + min (lag k) (CHANNEL_CAPACITY + 2))) st (k - 1) else st

theorem loopS_succ (v s : Bool) (msgs : List Msg) (lag : Nat → Nat) (fuel k : Nat) (st : St) :
    loopS v s msgs lag (fuel + 1) k st =
      if k < msgs.length then
        (if k + 1 = msgs.length then findMsg s msgs st k
         else loopS v s msgs lag fuel (k + 1) (dropStepS v msgs lag k (findMsg s msgs st k)))
      else st := by
  rfl

/-- the drop of `S4V.Model.MemSkip`: target 0 never runs, so nothing is dropped while `bo_first ≤ 2` -/
theorem dropStepS_inv {streamed : Bool} {k : Nat} {st : St} (hG : Geometry M B P msgs) (hG2 : 2 ≤ G)
    (hk : k + 1 < msgs.length) (h : Mid streamed msgs M B P G W k st) :
    Inv streamed msgs M B P G W (k + 1) (dropStepS true msgs prompt k st) := by
  unfold dropStepS
  by_cases hk1 : k ≥ 1
  · rw [if_pos hk1]
    show Inv streamed msgs M B P G W (k + 1) (dropTryS true msgs (heldPrompt k) st (k - 1))
    unfold dropTryS
    simp only []
    split
    · rename_i hskip
      have : fb msgs (k - 1) - 2 = 0 := by
        have := hskip.2
        rw [drop_try_consts.2.1, drop_try_consts.2.2] at this
        exact this
      apply h.to_Inv_nodrop hG hk
      intro j hj
      right; omega
    · by_cases hg : (msgs.getD (k - 1) []).first > DROP_TRY_GUARD
      · exact dropTryG_inv hG hk hk1 h hg
      · rw [dropTryG_noguard _ _ _ _ _ hg]
        apply h.to_Inv_nodrop hG hk
        intro j hj
        have : ¬ fb msgs (k - 1) > 1 := by
          rw [drop_try_consts.1] at hg; exact hg
        right; omega
  · rw [if_neg hk1]
    have hk0 : k = 0 := by omega
    subst hk0
    exact h.to_Inv_zero hG hk

/-- the marks a state carries -/
def Bounded (streamed : Bool) (msgs : List Msg) (M B P W : Nat) (st : St) : Prop :=
  ((streamed = false ∧ Crossed msgs) → st.bHigh ≤ bBoundW B W) ∧ st.lHigh ≤ lBound M W P ∧ st.sHigh ≤ sBound W P

theorem loopG_bounded {streamed : Bool} (hG : Geometry M B P msgs) (hWB : B ≤ W) (hWG : G ≤ W) (hG1 : 1 ≤ G) :
    ∀ (fuel k : Nat) (st : St),
    Inv streamed msgs M B P G W k st → Bounded streamed msgs M B P W (loopG true streamed msgs prompt fuel k st)
  | 0, _, st, h => ⟨fun hs => (h.b hs).1.high, h.l.high, h.shigh⟩
  | fuel + 1, k, st, h => by
    rw [loopG_succ]
    split
    · rename_i hk
      have hm := findMsg_inv hG hWB hWG hk h
      split
      · exact ⟨fun hs => (hm.b hs).1.high, hm.l.high, hm.shigh⟩
      · rename_i hne
        exact loopG_bounded hG hWB hWG hG1 fuel (k + 1) _ (dropStep_inv hG hG1 (by omega) hm)
    · exact ⟨fun hs => (h.b hs).1.high, h.l.high, h.shigh⟩

theorem loopS_bounded {streamed : Bool} (hG : Geometry M B P msgs) (hWB : B ≤ W) (hWG : G ≤ W) (hG2 : 2 ≤ G) :
    ∀ (fuel k : Nat) (st : St),
    Inv streamed msgs M B P G W k st → Bounded streamed msgs M B P W (loopS true streamed msgs prompt fuel k st)
  | 0, _, st, h => ⟨fun hs => (h.b hs).1.high, h.l.high, h.shigh⟩
  | fuel + 1, k, st, h => by
    rw [loopS_succ]
    split
    · rename_i hk
      have hm := findMsg_inv hG hWB hWG hk h
      split
      · exact ⟨fun hs => (hm.b hs).1.high, hm.l.high, hm.shigh⟩
      · rename_i hne
        exact loopS_bounded hG hWB hWG hG2 fuel (k + 1) _ (dropStepS_inv hG hG2 (by omega) hm)
    · exact ⟨fun hs => (h.b hs).1.high, h.l.high, h.shigh⟩

theorem Inv.init (streamed : Bool) (msgs : List Msg) (M B P G W : Nat) : Inv streamed msgs M B P G W 0 St.init := by
  refine ⟨fun _ => ⟨⟨by simp [St.init], by simp [St.init], by simp [St.init], by simp [St.init]⟩, by simp [St.init]⟩,
    by simp, by simp [St.init], by simp [St.init], by simp [St.init],
    ⟨by simp [St.init], by simp [St.init], by simp [St.init]⟩⟩

/-- `S4V.Model.Mem`: the invariant gives the bound for every number of messages (window width `B`) -/
theorem runG_bounded {streamed : Bool} (hG : Geometry M B P msgs) :
    Bounded streamed msgs M B P B (runG true streamed prompt msgs) := by
  by_cases hn : 0 < msgs.length
  · have hB := hG.bpos hn
    exact loopG_bounded (G := 1) hG (Nat.le_refl _) hB (Nat.le_refl _) _ 0 _ (Inv.init streamed msgs M B P 1 B)
  · have : msgs = [] := List.eq_nil_of_length_eq_zero (by omega)
    subst this
    exact ⟨fun _ => Nat.zero_le _, Nat.zero_le _, Nat.zero_le _⟩

/-- `S4V.Model.MemSkip`: the same with window width `max B 2` (the first target, 0, never runs) -/
theorem runSG_bounded {streamed : Bool} (hG : Geometry M B P msgs) :
    Bounded streamed msgs M B P (max B 2) (runSG true streamed prompt msgs) :=
  loopS_bounded (G := 2) hG (Nat.le_max_left _ _) (Nat.le_max_right _ _) (Nat.le_refl _) _ 0 _
    (Inv.init streamed msgs M B P 2 (max B 2))

end inv

/-! ### the old geometry is an instance -/

theorem Straddling.geometry {M : Nat} {msgs : List Msg} (h : Straddling M msgs) :
    Geometry M 2 1 msgs ∧ Crossed msgs := by
  refine ⟨⟨by decide, ?_, ?_, ?_, ?_, ?_⟩, ?_⟩
  · intro j hj
    obtain ⟨h1, _, _, _, h5⟩ := h j hj
    exact ⟨List.length_pos_of_mem h5, h1⟩
  · intro j hj ln hln
    obtain ⟨_, h2, h3, h4, _⟩ := h j hj
    have := h4 ln hln
    unfold fb lb
    omega
  · intro j hj
    obtain ⟨_, h2, h3, _, _⟩ := h j hj
    unfold fb lb
    omega
  · intro j hj
    have a := (h j (by omega)).2.2.1
    have b := (h (j + 1) (by omega)).2.1
    unfold fb lb
    omega
  · intro j hj
    have a := (h j (by omega)).2.1
    have b := (h (j + 1) (by omega)).2.1
    unfold fb
    omega
  · intro c hc
    by_cases hn : msgs.length = 0
    · have : lb msgs (msgs.length - 1) = 0 := lb_nil (by omega)
      omega
    · have hl : lb msgs (msgs.length - 1) = msgs.length - 1 + 1 := (h (msgs.length - 1) (by omega)).2.2.1
      exact ⟨c, by omega, ⟨c, c + 1⟩, (h c (by omega)).2.2.2.2, Nat.le_refl _, Nat.lt_succ_self _⟩

/-! ### input families -/

/-- `n` groups of `p` one-line messages inside block `i` followed by one line crossing into block
`i + 1` (its own message): `p + 1` messages start in every block -/
def packed (p n : Nat) : List Msg :=
  (List.range n).flatMap fun i => (List.replicate p [⟨i, i⟩]) ++ [[⟨i, i + 1⟩]]

theorem cross3_geometry (n : Nat) : Geometry 3 2 1 (cross3 n) ∧ Crossed (cross3 n) :=
  Straddling.geometry (cross3_Straddling n)

/-! ### `Crossed` is needed on a plain file: a block whose end no line crosses is kept for good -/

/-- `blocks high` is at least the number of stored blocks, and every block read is still stored -/
structure KInv (st : St) : Prop where
  hi : st.blocks.length ≤ st.bHigh
  all : ∀ c, c < st.nread → c ∈ st.blocks

theorem KInv.bound {st : St} (h : KInv st) : st.nread ≤ st.bHigh := by
  have hsub : List.range st.nread ⊆ st.blocks := fun c hc => h.all c (List.mem_range.1 hc)
  have := List.Nodup.length_le_of_subset List.nodup_range hsub
  have := h.hi
  simp only [List.length_range] at *
  omega

theorem readUpTo_KInv (b : Nat) : ∀ (fuel : Nat) (st : St), KInv st → KInv (readUpTo false fuel st b)
  | 0, st, h => by simpa [readUpTo] using h
  | fuel + 1, st, h => by
    unfold readUpTo
    split
    · apply readUpTo_KInv b fuel
      simp only [Bool.false_and, Bool.false_eq_true, if_false]
      refine ⟨by simp only [List.length_cons]; omega, ?_⟩
      intro c hc
      simp only [List.mem_cons]
      by_cases hcn : c = st.nread
      · exact Or.inl hcn
      · exact Or.inr (h.all c (by simp only at hc; omega))
    · exact h

theorem KInv.congr {s s' : St} (h : KInv s) (h1 : s'.blocks = s.blocks) (h2 : s'.nread = s.nread)
    (h3 : s'.bHigh = s.bHigh) : KInv s' :=
  ⟨by rw [h1, h3]; exact h.hi, by rw [h1, h2]; exact h.all⟩

theorem findMsg_KInv (msgs : List Msg) (st : St) (k : Nat) (h : KInv st) : KInv (findMsg false msgs st k) := by
  rw [findMsg_eq]
  have hP := foldl_inv KInv (findStep false) (look msgs k) st (fun s x _ hs => by
    have hfa := addLine_frame (readUpTo false (x.2.2.l + 1) s x.2.2.l) (x.1, x.2.1)
    exact (readUpTo_KInv _ _ s hs).congr hfa.1 hfa.2.1 hfa.2.2.1) h
  exact hP.congr rfl rfl rfl

/-- when no line of the file leaves its block, `drop_line` never has a block to drop -/
theorem dropTryG_KInv (v : Bool) (msgs : List Msg) (held : Nat → Bool) (st : St) (prev : Nat)
    (hflat : ∀ j, ∀ ln ∈ msgs.getD j [], ln.l ≤ ln.f) (h : KInv st) : KInv (dropTryG v msgs held st prev) := by
  unfold dropTryG
  simp only []
  split
  · refine ⟨Nat.le_trans List.filter_sublist.length_le h.hi, ?_⟩
    intro c hc
    refine List.mem_filter.2 ⟨h.all c hc, ?_⟩
    rw [Bool.not_eq_true', ← Bool.not_eq_true, List.contains_iff_mem, List.mem_flatMap]
    rintro ⟨j, _, hj⟩
    obtain ⟨ln, hln, hcl⟩ := List.mem_flatMap.1 hj
    have := hflat j ln (List.mem_of_mem_take hln)
    have := (mem_dropParts ln c).1 hcl
    omega
  · exact h

theorem loopG_keeps (v : Bool) (msgs : List Msg) (lag : Nat → Nat)
    (hflat : ∀ j, ∀ ln ∈ msgs.getD j [], ln.l ≤ ln.f) : ∀ (fuel k : Nat) (st : St),
    KInv st → k < msgs.length → msgs.length ≤ fuel + k →
    KInv (loopG v false msgs lag fuel k st)
      ∧ ∀ ln ∈ msgs.getD (msgs.length - 1) [], ln.l + 1 ≤ (loopG v false msgs lag fuel k st).nread
  | 0, k, st, _, h1, h2 => by omega
  | fuel + 1, k, st, h, h1, h2 => by
    rw [loopG_succ, if_pos h1]
    have hm := findMsg_KInv msgs st k h
    split
    · rename_i hlast
      refine ⟨hm, ?_⟩
      intro ln hln
      have e : msgs.length - 1 = k := by omega
      rw [e] at hln
      obtain ⟨i, hi⟩ := look_of_mem hln
      have := foldStep_nread_ge false (look msgs k) st _ hi
      rw [findMsg_eq]
      exact this
    · apply loopG_keeps v msgs lag hflat fuel (k + 1) _ _ (by omega) (by omega)
      unfold dropStep
      split
      · exact dropTryG_KInv v msgs _ _ _ hflat hm
      · exact hm

/-- plain file in which no line crosses a block boundary: every block up to the last line's is retained,
whatever the consumer and the `drop_lines` variant -/
theorem runG_keeps_all (v : Bool) (lag : Nat → Nat) (msgs : List Msg)
    (hflat : ∀ j, ∀ ln ∈ msgs.getD j [], ln.l ≤ ln.f) (hn : 0 < msgs.length) :
    ∀ ln ∈ msgs.getD (msgs.length - 1) [], ln.l + 1 ≤ (runG v false lag msgs).bHigh := by
  intro ln hln
  have h := loopG_keeps v msgs lag hflat (msgs.length + 1) 0 St.init
    ⟨by simp [St.init], by simp [St.init]⟩ hn (by omega)
  have := h.1.bound
  have := h.2 ln hln
  unfold runG
  omega

theorem aligned_getD (n j : Nat) (hj : j < n) : (aligned n).getD j [] = [⟨j / 2, j / 2⟩] := by
  unfold aligned
  rw [getD_map_range n j _ hj]

theorem aligned_fb (n j : Nat) (hj : j < n) : fb (aligned n) j = j / 2 ∧ lb (aligned n) j = j / 2 := by
  unfold fb lb
  rw [aligned_getD n j hj]
  exact ⟨rfl, rfl⟩

theorem aligned_geometry (n : Nat) : Geometry 1 1 2 (aligned n) := by
  have hlen : (aligned n).length = n := by simp [aligned]
  refine ⟨by decide, ?_, ?_, ?_, ?_, ?_⟩ <;> rw [hlen] <;> intro j hj
  · rw [aligned_getD n j hj]; simp
  · rw [aligned_getD n j hj]
    intro ln hln
    simp only [List.mem_singleton] at hln
    subst hln
    have := aligned_fb n j hj
    simp only
    omega
  · have := aligned_fb n j hj
    omega
  · have := aligned_fb n j (by omega)
    have := aligned_fb n (j + 1) (by omega)
    omega
  · have := aligned_fb n j (by omega)
    have := aligned_fb n (j + 2) (by omega)
    omega

/-- the aligned family retains every block, for EVERY size -/
theorem aligned_keeps_all (v : Bool) (lag : Nat → Nat) (n : Nat) (hn : 0 < n) :
    (n - 1) / 2 + 1 ≤ (runG v false lag (aligned n)).bHigh := by
  have hlen : (aligned n).length = n := by simp [aligned]
  have := runG_keeps_all v lag (aligned n) (by
    intro j ln hln
    by_cases hj : j < n
    · rw [aligned_getD n j hj] at hln
      simp only [List.mem_singleton] at hln
      subst hln
      exact Nat.le_refl _
    · rw [getD_len_nil _ _ (by omega)] at hln
      simp at hln) (by omega) ⟨(n - 1) / 2, (n - 1) / 2⟩ (by
    rw [hlen, aligned_getD n (n - 1) (by omega)]
    simp)
  exact this

/-! ### a prompt consumer is needed: messages the consumer still holds leave their lines behind -/

/-- a drop in which every selected message is still held by the consumer releases no line -/
theorem dropTryG_held_frame (v : Bool) (msgs : List Msg) (held : Nat → Bool) (st : St) (prev : Nat)
    (hh : ∀ j ∈ st.syslines, (msgs.getD j []).last ≤ (msgs.getD prev []).first - DROP_TRY_BACK → held j = true) :
    (dropTryG v msgs held st prev).lines = st.lines ∧ (dropTryG v msgs held st prev).lHigh = st.lHigh
    ∧ (∀ j ∈ (dropTryG v msgs held st prev).syslines, j ∈ st.syslines ∧
        ((msgs.getD prev []).first > DROP_TRY_GUARD →
          ¬ (msgs.getD j []).last ≤ (msgs.getD prev []).first - DROP_TRY_BACK)) := by
  unfold dropTryG
  simp only []
  split
  · rename_i hg
    refine ⟨?_, rfl, ?_⟩
    · apply List.filter_eq_self.2
      intro p _
      have : ((st.syslines.filter fun j => decide ((msgs.getD j []).last ≤ (msgs.getD prev []).first - DROP_TRY_BACK)).filter
          fun j => !held j).contains p.1 = false := by
        rw [← Bool.not_eq_true, List.contains_iff_mem]
        intro hm
        obtain ⟨h1, h2⟩ := List.mem_filter.1 hm
        obtain ⟨h3, h4⟩ := List.mem_filter.1 h1
        have := hh p.1 h3 (by simpa using h4)
        rw [this] at h2
        exact Bool.noConfusion h2
      rw [this]
      rfl
    · intro j hj
      obtain ⟨h1, h2⟩ := List.mem_filter.1 hj
      exact ⟨h1, fun _ => by simpa using h2⟩
  · rename_i hg
    exact ⟨rfl, rfl, fun j hj => ⟨hj, fun h => absurd h hg⟩⟩

/-- at the head of iteration `k`: the first line of every message handled so far is still stored, and
`syslines` holds only the last four messages -/
structure LInv (k w : Nat) (st : St) : Prop where
  hi : LHi st
  mem : ∀ j, j < k → (j, 0) ∈ st.lines
  win : ∀ j ∈ st.syslines, j < k ∧ k ≤ j + w

theorem LInv.bound {k w : Nat} {st : St} (h : LInv k w st) : k ≤ st.lHigh := by
  have hsub : List.range k ⊆ st.lines.map Prod.fst := by
    intro j hj
    exact List.mem_map.2 ⟨(j, 0), h.mem j (List.mem_range.1 hj), rfl⟩
  have := List.Nodup.length_le_of_subset List.nodup_range hsub
  have := h.hi
  unfold LHi at this
  simp only [List.length_range, List.length_map] at *
  omega

theorem loopG_lagging_grows {M : Nat} {msgs : List Msg} (hS : Straddling M msgs) (v streamed : Bool) :
    ∀ (fuel k : Nat) (st : St),
    LInv k 4 st → k ≤ msgs.length → msgs.length + 1 ≤ fuel + k →
    msgs.length ≤ (loopG v streamed msgs lagging fuel k st).lHigh
  | 0, k, st, h, h1, h2 => by
    have := h.bound
    omega
  | fuel + 1, k, st, h, h1, h2 => by
    rw [loopG_succ]
    split
    · rename_i hk
      have hf := foldStep_lines streamed (look msgs k) st
      have hfr := foldStep_frame streamed (look msgs k) st
      have hmid : LInv (k + 1) 5 (findMsg streamed msgs st k) ∧
          ∀ j ∈ (findMsg streamed msgs st k).syslines, j ≤ k ∧ k ≤ j + 4 := by
        rw [findMsg_eq]
        refine ⟨⟨hf.1 h.hi, ?_, ?_⟩, ?_⟩
        · intro j hj
          by_cases hjk : j < k
          · exact hf.2.1 _ (h.mem j hjk)
          · have hjk' : j = k := by omega
            subst hjk'
            have hl : 0 < (msgs.getD j []).length := List.length_pos_of_mem (hS j hk).2.2.2.2
            exact hf.2.2 _ (look_of_idx hl)
        · intro j hj
          simp only [hfr.1, List.mem_cons] at hj
          rcases hj with rfl | hj
          · omega
          · have := h.win j hj; omega
        · intro j hj
          simp only [hfr.1, List.mem_cons] at hj
          rcases hj with rfl | hj
          · omega
          · have := h.win j hj; omega
      split
      · rename_i hlast
        have := hmid.1.bound
        omega
      · apply loopG_lagging_grows hS v streamed fuel (k + 1) _ _ (by omega) (by omega)
        unfold dropStep
        split
        · rename_i hk1
          have hfirst : (msgs.getD (k - 1) []).first = k - 1 := (hS (k - 1) (by omega)).2.1
          have hd := dropTryG_held_frame v msgs (fun j => decide (k < j + min (lagging k) (CHANNEL_CAPACITY + 2)))
            (findMsg streamed msgs st k) (k - 1) (by
              intro j hj _
              have := hmid.2 j hj
              simp only [lagging, CHANNEL_CAPACITY, Nat.min_self, decide_eq_true_eq]
              omega)
          refine ⟨?_, ?_, ?_⟩
          · have := hmid.1.hi
            unfold LHi at this ⊢
            rw [hd.1, hd.2.1]
            exact this
          · intro j hj
            rw [hd.1]
            exact hmid.1.mem j hj
          · intro j hj
            obtain ⟨h3, h4⟩ := hd.2.2 j hj
            have hw := hmid.2 j h3
            have hlast : (msgs.getD j []).last = j + 1 := (hS j (by omega)).2.2.1
            rw [hfirst, hlast, drop_try_consts.1, drop_try_consts.2.1] at h4
            refine ⟨by omega, ?_⟩
            by_cases hg : k - 1 > 1
            · have := h4 hg
              omega
            · omega
        · refine ⟨hmid.1.hi, hmid.1.mem, ?_⟩
          intro j hj
          have := hmid.2 j hj
          omega
    · have : k = msgs.length := by omega
      subst this
      exact h.bound

/-- every `Straddling` file, consumer as far behind as the channel allows: one line per message stays -/
theorem runG_lagging_grows {M : Nat} {msgs : List Msg} (hS : Straddling M msgs) (v streamed : Bool) :
    msgs.length ≤ (runG v streamed lagging msgs).lHigh := by
  unfold runG
  exact loopG_lagging_grows hS v streamed (msgs.length + 1) 0 St.init
    ⟨by simp [LHi, St.init], fun j hj => absurd hj (Nat.not_lt_zero _), by simp [St.init]⟩ (Nat.zero_le _) (by omega)

/-! ### `S4V.Model.MemSkip`: a streamed reader still holds at most 2 blocks -/

theorem dropTryS_blocks (v : Bool) (msgs : List Msg) (held : Nat → Bool) (st : St) (prev : Nat) :
    (dropTryS v msgs held st prev).blocks.Sublist st.blocks
    ∧ (dropTryS v msgs held st prev).nread = st.nread ∧ (dropTryS v msgs held st prev).bHigh = st.bHigh := by
  unfold dropTryS
  simp only []
  split
  · exact ⟨List.Sublist.refl _, rfl, rfl⟩
  · exact dropTryG_blocks v msgs held st prev

theorem loopS_BStr (v : Bool) (msgs : List Msg) (lag : Nat → Nat) : ∀ (fuel k : Nat) (st : St),
    BStr st → BStr (loopS v true msgs lag fuel k st)
  | 0, _, _, h => h
  | fuel + 1, k, st, h => by
    rw [loopS_succ]
    split
    · have hm := findMsg_BStr msgs st k h
      split
      · exact hm
      · apply loopS_BStr v msgs lag fuel (k + 1)
        unfold dropStepS
        split
        · have := dropTryS_blocks v msgs (fun j => decide (k < j + min (lag k) (CHANNEL_CAPACITY + 2))) (findMsg true msgs st k) (k - 1)
          exact hm.sub this.1 this.2.1 this.2.2
        · exact hm
    · exact h

theorem runSG_streamed_bHigh (v : Bool) (lag : Nat → Nat) (msgs : List Msg) : (runSG v true lag msgs).bHigh ≤ 2 :=
  (loopS_BStr v msgs lag _ 0 St.init ⟨by simp [St.init], by simp [St.init], by simp [St.init]⟩).high

end S4V.Lemmas.MemGeneral
