/-
C04, regex slice, stage 7 — the word-shape hypotheses of the end-to-end theorems DISCHARGED FROM THE CATALOGUES.

`C04_rowN_end_to_end` (`S4V.Props.RegexE2E*`) assumes `shapeOK` (digit counts, known month names, zone notation) and
`rangeOK` (calendar values) of the captured words. The words a named group can capture are slices of the symbolic words of
the row's derived catalogue (`S4V.Lemmas.RegexAuto.rowBodyE/P`), so most of both hypotheses is a property of the catalogue:

* `symSlice`, `conc_slice`      the slot `(a, b)` of an entry cuts a symbolic word whose concrete words are the slices
* `slotsPass g P body`          every entry of every piece that records group `g` has a slice passing the symbolic test `P`
* `mayNone g body`              some selection may leave group `g` unrecorded (then the field is absent)
* `fieldPass row body name PS`  the check of one named field; `fieldPass_sound`: for EVERY valid selection the captured
                                field (`selField`) satisfies the concrete predicate the symbolic test is sound for (`OptSound`)
* `allIn s p`                   every byte of a symbol satisfies `p`; `enumAll ss P`: every concrete word of `ss` satisfies `P`
                                (used where the symbols are single bytes: month names, `01`…`31`; guarded by a size bound)
* per field kind a symbolic test (`yearOKs` … `tzOKs`) with its soundness lemma against `yearOK` … `tzOK`
* `shapeFromCatalogue row body` **the per-row check** (`S4V.Props.RegexE2EShape*`: `catN : catOK rowN body = true`, one kernel computation
                                per row; `catOK` = this check and `rangeFromCatalogue` in ONE traversal of the catalogue, `shape_of_catOK`, `range_of_catOK`);
  `shapeFromCatalogue_sound`:  `= true → ∀ sel, Valid body sel → shapeOK row.dtfs (selFields row sel) fill = true`
                                (the only remaining side condition: a fill year, where the text has none, has four digits)
* `rangeFromCatalogue row body` month 1–12, day 1–31, minute ≤ 59, second ≤ 60 are guaranteed by the catalogue;
  `calendarOK`                  what is NOT: hour ≤ 23 (the rows accept `24`), numeric zone hours ≤ 23 / minutes ≤ 59 (the rows
                                accept `+29:99`), and the day exists in that month of that year (`validDate`: Feb 30, Feb 29)
  `rangeFromCatalogue_sound`:  `= true → Valid body sel → calendarOK … = true → rangeOK … = true`
-/
import S4V.Lemmas.RegexE2ERow

namespace S4V.Lemmas.RegexE2E
open S4V.Model.Regex S4V.Lemmas.RegexStep S4V.Lemmas.RegexSym S4V.Lemmas.RegexRows S4V.Lemmas.RegexAuto
open S4V.Gen.TimeTables S4V.Model.Time S4V.Model.DtParse S4V.Lemmas.DtParse S4V.Props.TimeSpec S4V.Lemmas.RegexZones

/-! ### slices of symbolic words -/

/-- the part of a symbolic word a capture slot spans -/
def symSlice (ss : List Sym) (ab : Nat × Nat) : List Sym := (ss.drop ab.1).take (ab.2 - ab.1)

theorem conc_drop : ∀ {ss : List Sym} {w : List UInt8} (n : Nat), Conc ss w → Conc (ss.drop n) (w.drop n) := by
  intro ss
  induction ss with
  | nil => intro w n h; rw [conc_nil h]; simp [Conc]
  | cons s ss ih =>
    intro w n h
    obtain ⟨b, w', rfl, hb, hc⟩ := conc_cons h
    cases n with
    | zero => exact h
    | succ n => simpa using ih n hc

theorem conc_take : ∀ {ss : List Sym} {w : List UInt8} (n : Nat), Conc ss w → Conc (ss.take n) (w.take n) := by
  intro ss
  induction ss with
  | nil => intro w n h; rw [conc_nil h]; simp [Conc]
  | cons s ss ih =>
    intro w n h
    obtain ⟨b, w', rfl, hb, hc⟩ := conc_cons h
    cases n with
    | zero => simp [Conc]
    | succ n => simpa [Conc, hb] using ih n hc

theorem conc_slice {ss : List Sym} {w : List UInt8} (ab : Nat × Nat) (h : Conc ss w) : Conc (symSlice ss ab) (sliceOf w ab) :=
  conc_take _ (conc_drop _ h)

/-! ### what a named group can capture, over a whole catalogue -/

/-- every entry of every piece that records group `g` has a slice passing `P` -/
def slotsPass (g : Nat) (P : List Sym → Bool) (body : List Piece) : Bool :=
  body.all (fun q => q.dom.all (fun e =>
    match capGet e.2 g with
    | some ab => P (symSlice e.1 ab)
    | none => true))

/-- some selection may leave group `g` unrecorded: every piece has an entry without a slot for `g` -/
def mayNone (g : Nat) (body : List Piece) : Bool :=
  body.all (fun q => q.dom.any (fun e => (capGet e.2 g).isNone))

theorem selText_some_of_slotsPass {g : Nat} {PS : List Sym → Bool} {PC : List UInt8 → Bool}
    (hsound : ∀ ss w, PS ss = true → Conc ss w → PC w = true) :
    ∀ {body : List Piece} {sel : Sel}, slotsPass g PS body = true → Valid body sel →
      ∀ t, selText g sel = some t → PC t = true := by
  intro body
  induction body with
  | nil =>
    intro sel _ hv t ht
    cases sel with
    | nil => simp [selText] at ht
    | cons _ _ => exact absurd hv (by simp [Valid])
  | cons q qs ih =>
    intro sel hp hv t ht
    cases sel with
    | nil => exact absurd hv (by simp [Valid])
    | cons ew sel =>
      obtain ⟨hm, hc, hv'⟩ := hv
      simp only [slotsPass, List.all_cons, Bool.and_eq_true] at hp
      simp only [selText] at ht
      cases hs : selText g sel with
      | some t' =>
        rw [hs] at ht
        cases ht
        exact ih (by simpa [slotsPass] using hp.2) hv' _ hs
      | none =>
        rw [hs] at ht
        have he := List.all_eq_true.mp hp.1 ew.1 hm
        cases hg : capGet ew.1.2 g with
        | none => rw [hg] at ht; simp at ht
        | some ab =>
          rw [hg] at ht he
          simp only [Option.map_some, Option.some.injEq] at ht
          subst ht
          exact hsound _ _ he (conc_slice ab hc)

theorem mayNone_of_selText_none {g : Nat} :
    ∀ {body : List Piece} {sel : Sel}, Valid body sel → selText g sel = none → mayNone g body = true := by
  intro body
  induction body with
  | nil => intro _ _ _; rfl
  | cons q qs ih =>
    intro sel hv ht
    cases sel with
    | nil => exact absurd hv (by simp [Valid])
    | cons ew sel =>
      obtain ⟨hm, _, hv'⟩ := hv
      simp only [selText] at ht
      cases hs : selText g sel with
      | some t' => rw [hs] at ht; cases ht
      | none =>
        rw [hs] at ht
        simp only [mayNone, List.all_cons, Bool.and_eq_true]
        refine ⟨List.any_eq_true.mpr ⟨ew.1, hm, ?_⟩, by simpa [mayNone] using ih hv' hs⟩
        cases hg : capGet ew.1.2 g with
        | none => rfl
        | some ab => rw [hg] at ht; simp at ht

/-- a symbolic test `PS` is sound for the concrete predicate `PC` (absent field; every concrete word of a symbolic word) -/
def OptSound (PS : Option (List Sym) → Bool) (PC : Option Bytes → Bool) : Prop :=
  (PS none = true → PC none = true) ∧ ∀ ss w, PS (some ss) = true → Conc ss w → PC (some w) = true

/-- the check of the named field `name` of a row over its catalogue -/
def fieldPass (row : RRow) (body : List Piece) (name : String) (PS : Option (List Sym) → Bool) : Bool :=
  match row.names.lookup name with
  | none => PS none
  | some g => slotsPass g (fun ss => PS (some ss)) body && (!mayNone g body || PS none)

/-- **soundness of the field check**: whatever the selection, the captured field satisfies the concrete predicate -/
theorem fieldPass_sound {row : RRow} {body : List Piece} {name : String} {PS : Option (List Sym) → Bool}
    {PC : Option Bytes → Bool} (h : fieldPass row body name PS = true) (hs : OptSound PS PC)
    {sel : Sel} (hv : Valid body sel) : PC (selField row sel name) = true := by
  unfold fieldPass at h
  unfold selField
  cases hl : row.names.lookup name with
  | none => rw [hl] at h; exact hs.1 h
  | some g =>
    rw [hl] at h
    simp only [Bool.and_eq_true, Bool.or_eq_true, Bool.not_eq_true'] at h
    simp only [Option.bind_some]
    cases ht : selText g sel with
    | some t =>
      exact selText_some_of_slotsPass (PS := fun ss => PS (some ss)) (PC := fun w => PC (some w))
        (fun ss w a b => hs.2 ss w a b) h.1 hv t ht
    | none =>
      have := mayNone_of_selText_none hv ht
      rcases h.2 with h2 | h2
      · rw [this] at h2; cases h2
      · exact hs.1 h2

/-! ### symbolic tests on bytes and words -/

/-- every byte of the symbol satisfies `p` -/
def allIn (s : Sym) (p : UInt8 → Bool) : Bool :=
  s.all (fun r => (List.range' r.1 (r.2 + 1 - r.1)).all (fun n => p (UInt8.ofNat n)))

theorem allIn_sound {s : Sym} {p : UInt8 → Bool} {b : UInt8} (h : allIn s p = true) (hb : symHas s b = true) : p b = true := by
  simp only [symHas, inRanges, List.any_eq_true, Bool.and_eq_true, decide_eq_true_eq] at hb
  obtain ⟨r, hr, h1, h2⟩ := hb
  have := List.all_eq_true.mp (List.all_eq_true.mp h r hr) b.toNat (List.mem_range'_1.mpr ⟨h1, by omega⟩)
  simpa using this

theorem conc_all {p : UInt8 → Bool} : ∀ {ss : List Sym} {w : List UInt8},
    ss.all (fun s => allIn s p) = true → Conc ss w → w.all p = true := by
  intro ss
  induction ss with
  | nil => intro w _ hc; rw [conc_nil hc]; rfl
  | cons s ss ih =>
    intro w h hc
    obtain ⟨b, w', rfl, hb, hc'⟩ := conc_cons hc
    simp only [List.all_cons, Bool.and_eq_true] at h ⊢
    exact ⟨allIn_sound h.1 hb, ih h.2 hc'⟩

/-- `n` digit symbols -/
def digsS (n : Nat) (ss : List Sym) : Bool := ss.length == n && ss.all (fun s => allIn s isDigit)

theorem digsS_sound {n : Nat} {ss : List Sym} {w : List UInt8} (h : digsS n ss = true) (hc : Conc ss w) : digs n w = true := by
  simp only [digsS, digs, Bool.and_eq_true, beq_iff_eq] at h ⊢
  exact ⟨by rw [← conc_length hc]; exact h.1, conc_all h.2 hc⟩

/-- every concrete word of a symbolic word satisfies `P` (by enumeration) -/
def enumAll : List Sym → (Bytes → Bool) → Bool
  | [], P => P []
  | s :: ss, P => allIn s (fun b => enumAll ss (fun w => P (b :: w)))

theorem enumAll_sound : ∀ {ss : List Sym} {P : Bytes → Bool} {w : List UInt8}, enumAll ss P = true → Conc ss w → P w = true := by
  intro ss
  induction ss with
  | nil => intro P w h hc; rw [conc_nil hc]; exact h
  | cons s ss ih =>
    intro P w h hc
    obtain ⟨b, w', rfl, hb, hc'⟩ := conc_cons hc
    simp only [enumAll] at h
    exact ih (P := fun w => P (b :: w)) (allIn_sound h hb) hc'

/-- the number of bytes of a symbol / of concrete words of a symbolic word -/
def symSize (s : Sym) : Nat := s.foldl (fun a r => a + (r.2 + 1 - r.1)) 0
def wordCount (ss : List Sym) : Nat := ss.foldl (fun a s => a * symSize s) 1

/-- enumeration, refused (false) when the symbolic word has more than `bound` concrete words -/
def enumOK (bound : Nat) (ss : List Sym) (P : Bytes → Bool) : Bool := decide (wordCount ss ≤ bound) && enumAll ss P

theorem enumOK_sound {bound : Nat} {ss : List Sym} {P : Bytes → Bool} {w : List UInt8} (h : enumOK bound ss P = true)
    (hc : Conc ss w) : P w = true := by
  simp only [enumOK, Bool.and_eq_true] at h
  exact enumAll_sound h.2 hc

/-! ### the symbolic test of every field kind -/

/-- the fill year (only used where the notation has no year) has four digits -/
def fillOK (yk : DTFS_Year) (fill : Option Int) : Bool :=
  match yk with
  | .fill =>
    match fill with
    | some y => decide (1000 ≤ y ∧ y ≤ 9999)
    | none => true
  | _ => true

theorem fillOK_of (yk : DTFS_Year) (fill : Option Int) (h : ∀ y, fill = some y → 1000 ≤ y ∧ y ≤ 9999) :
    fillOK yk fill = true := by
  cases yk <;> simp only [fillOK]
  cases fill with
  | none => rfl
  | some y => simpa using h y rfl

def yearOKs (yk : DTFS_Year) (o : Option (List Sym)) : Bool :=
  match yk, o with
  | .Y, some ss => digsS 4 ss
  | .fill, some ss => digsS 4 ss
  | .y, some ss => digsS 2 ss
  | .fill, none => true
  | _, _ => false

theorem yearOKs_sound (yk : DTFS_Year) (fill : Option Int) (hf : fillOK yk fill = true) :
    OptSound (yearOKs yk) (fun o => yearOK yk o fill) := by
  refine ⟨fun h => ?_, fun ss w h hc => ?_⟩
  · cases yk <;> simp [yearOKs] at h
    cases fill with
    | none => simp [yearOK]
    | some y => simpa [yearOK, fillOK] using hf
  · cases yk <;> simp only [yearOKs, Bool.false_eq_true] at h
    · exact digsS_sound h hc
    · exact digsS_sound h hc
    · exact digsS_sound h hc

def isMonthName (t : Bytes) : Bool := (lookup monthNamesB t).isSome

def monthOKs (mk : DTFS_Month) (o : Option (List Sym)) : Bool :=
  match mk, o with
  | .m, some ss => digsS 2 ss
  | .ms, some ss => digsS 1 ss || digsS 2 ss
  | .b, some ss => enumOK 16 ss isMonthName
  | .B, some ss => enumOK 16 ss isMonthName
  | _, _ => false

theorem monthOKs_sound (mk : DTFS_Month) : OptSound (monthOKs mk) (monthOK mk) := by
  refine ⟨fun h => ?_, fun ss w h hc => ?_⟩
  · cases mk <;> simp [monthOKs] at h
  · cases mk <;> simp only [monthOKs, Bool.false_eq_true, Bool.or_eq_true] at h
    · exact digsS_sound h hc
    · simp only [monthOK, Bool.or_eq_true]
      exact h.imp (digsS_sound · hc) (digsS_sound · hc)
    · exact enumOK_sound (P := isMonthName) h hc
    · exact enumOK_sound (P := isMonthName) h hc

def dayOKs (o : Option (List Sym)) : Bool :=
  match o with
  | some [x] => allIn x isDigit
  | some [a, b] => allIn a (fun c => c == 32 || isDigit c) && allIn b isDigit
  | _ => false

theorem dayOKs_sound : OptSound dayOKs dayOK := by
  refine ⟨fun h => by simp [dayOKs] at h, fun ss w h hc => ?_⟩
  match ss, h with
  | [x], h =>
    obtain ⟨b, w', rfl, hb, hc'⟩ := conc_cons hc
    rw [conc_nil hc']
    exact allIn_sound (by simpa [dayOKs] using h) hb
  | [a, b], h =>
    obtain ⟨x, w', rfl, hx, hc'⟩ := conc_cons hc
    obtain ⟨y, w'', rfl, hy, hc''⟩ := conc_cons hc'
    rw [conc_nil hc'']
    simp only [dayOKs, Bool.and_eq_true] at h
    simp only [dayOK, Bool.and_eq_true]
    exact ⟨allIn_sound (p := fun c => c == 32 || isDigit c) h.1 hx, allIn_sound h.2 hy⟩

def hourOKs (hk : DTFS_Hour) (o : Option (List Sym)) : Bool :=
  match hk, o with
  | .H, some ss => digsS 2 ss
  | .k, some ss => digsS 1 ss || digsS 2 ss
  | _, _ => false

theorem hourOKs_sound (hk : DTFS_Hour) : OptSound (hourOKs hk) (hourOK hk) := by
  refine ⟨fun h => ?_, fun ss w h hc => ?_⟩
  · cases hk <;> simp [hourOKs] at h
  · cases hk <;> simp only [hourOKs, Bool.false_eq_true, Bool.or_eq_true] at h
    · exact digsS_sound h hc
    · simp only [hourOK, Bool.or_eq_true]
      exact h.imp (digsS_sound · hc) (digsS_sound · hc)

def minuteOKs (o : Option (List Sym)) : Bool :=
  match o with
  | some ss => digsS 2 ss
  | none => false

theorem minuteOKs_sound : OptSound minuteOKs minuteOK :=
  ⟨fun h => by simp [minuteOKs] at h, fun _ _ h hc => digsS_sound (by simpa [minuteOKs] using h) hc⟩

def secOKs (sk : DTFS_Second) (o : Option (List Sym)) : Bool :=
  match sk, o with
  | .S, some ss => digsS 2 ss
  | .S, none => false
  | _, _ => true

theorem secOKs_sound (sk : DTFS_Second) : OptSound (secOKs sk) (secOK sk) := by
  refine ⟨fun h => ?_, fun ss w h hc => ?_⟩
  · cases sk <;> simp [secOKs] at h <;> rfl
  · cases sk
    · exact digsS_sound (by simpa [secOKs] using h) hc
    · rfl
    · rfl

def fracOKs (fk : DTFS_Fractional) (o : Option (List Sym)) : Bool :=
  match fk, o with
  | .f, some ss => ss.all (fun s => allIn s isDigit) && decide (1 ≤ ss.length) && decide (ss.length ≤ 12)
  | .f, none => false
  | .none_, _ => true

theorem fracOKs_sound (fk : DTFS_Fractional) : OptSound (fracOKs fk) (fracOK fk) := by
  refine ⟨fun h => ?_, fun ss w h hc => ?_⟩
  · cases fk <;> simp [fracOKs] at h <;> rfl
  · cases fk
    · simp only [fracOKs, Bool.and_eq_true, decide_eq_true_eq] at h
      simp only [fracOK, Bool.and_eq_true, decide_eq_true_eq]
      rw [← conc_length hc]
      exact ⟨⟨conc_all h.1.1 hc, h.1.2⟩, h.2⟩
    · rfl

/-- shape of a numeric zone, symbolically (ASCII sign: the catalogues hold the ASCII part of `[\+\-−]`) -/
def tzNumOKs (short : Bool) (ss : List Sym) : Bool :=
  match ss with
  | [s, h1, h2] => short && allIn s isSign && allIn h1 isDigit && allIn h2 isDigit
  | [s, h1, h2, m1, m2] => allIn s isSign && allIn h1 isDigit && allIn h2 isDigit && allIn m1 isDigit && allIn m2 isDigit
  | [s, h1, h2, c, m1, m2] =>
    allIn s isSign && allIn h1 isDigit && allIn h2 isDigit && allIn c (fun b => b == 58) && allIn m1 isDigit && allIn m2 isDigit
  | _ => false

theorem stripMinus_sign {s : UInt8} (r : Bytes) (h : isSign s = true) : stripMinus (s :: r) = s :: r := by
  have : s = 43 ∨ s = 45 := by simpa [isSign] using h
  rcases this with rfl | rfl <;> rfl

theorem tzNumOKs_sound {short : Bool} {ss : List Sym} {w : List UInt8} (h : tzNumOKs short ss = true) (hc : Conc ss w) :
    tzNumOK short (stripMinus w) = true := by
  unfold tzNumOKs at h
  split at h
  · next s h1 h2 =>
    obtain ⟨a, w1, rfl, ha, c1⟩ := conc_cons hc
    obtain ⟨b, w2, rfl, hb, c2⟩ := conc_cons c1
    obtain ⟨c, w3, rfl, hcc, c3⟩ := conc_cons c2
    rw [conc_nil c3]
    simp only [Bool.and_eq_true] at h
    obtain ⟨⟨⟨hs, x1⟩, x2⟩, x3⟩ := h
    have y1 := allIn_sound x1 ha
    rw [stripMinus_sign _ y1]
    simp [tzNumOK, hs, y1, allIn_sound x2 hb, allIn_sound x3 hcc]
  · next s h1 h2 m1 m2 =>
    obtain ⟨a, w1, rfl, ha, c1⟩ := conc_cons hc
    obtain ⟨b, w2, rfl, hb, c2⟩ := conc_cons c1
    obtain ⟨c, w3, rfl, hcc, c3⟩ := conc_cons c2
    obtain ⟨d, w4, rfl, hd, c4⟩ := conc_cons c3
    obtain ⟨e, w5, rfl, he, c5⟩ := conc_cons c4
    rw [conc_nil c5]
    simp only [Bool.and_eq_true] at h
    obtain ⟨⟨⟨⟨x1, x2⟩, x3⟩, x4⟩, x5⟩ := h
    have y1 := allIn_sound x1 ha
    rw [stripMinus_sign _ y1]
    simp [tzNumOK, y1, allIn_sound x2 hb, allIn_sound x3 hcc, allIn_sound x4 hd, allIn_sound x5 he]
  · next s h1 h2 cc m1 m2 =>
    obtain ⟨a, w1, rfl, ha, c1⟩ := conc_cons hc
    obtain ⟨b, w2, rfl, hb, c2⟩ := conc_cons c1
    obtain ⟨c, w3, rfl, hcc, c3⟩ := conc_cons c2
    obtain ⟨d, w4, rfl, hd, c4⟩ := conc_cons c3
    obtain ⟨e, w5, rfl, he, c5⟩ := conc_cons c4
    obtain ⟨f, w6, rfl, hf, c6⟩ := conc_cons c5
    rw [conc_nil c6]
    simp only [Bool.and_eq_true] at h
    obtain ⟨⟨⟨⟨⟨x1, x2⟩, x3⟩, x4⟩, x5⟩, x6⟩ := h
    have y1 := allIn_sound x1 ha
    have y4 : (d == 58) = true := allIn_sound (p := fun b => b == 58) x4 hd
    rw [stripMinus_sign _ y1]
    simp [tzNumOK, y1, allIn_sound x2 hb, allIn_sound x3 hcc, y4, allIn_sound x5 he, allIn_sound x6 hf]
  · cases h

def tzOKs (zk : DTFS_Tz) (o : Option (List Sym)) : Bool :=
  match zk, o with
  | .z, some ss => tzNumOKs false ss
  | .zc, some ss => tzNumOKs false ss
  | .zp, some ss => tzNumOKs true ss
  | .Z, some _ => true
  | .fill, _ => true
  | .none_, _ => true
  | _, none => false

theorem tzOKs_sound (zk : DTFS_Tz) : OptSound (tzOKs zk) (tzOK zk) := by
  refine ⟨fun h => ?_, fun ss w h hc => ?_⟩
  · cases zk <;> simp [tzOKs] at h <;> rfl
  · cases zk
    · exact tzNumOKs_sound (by simpa [tzOKs] using h) hc
    · exact tzNumOKs_sound (by simpa [tzOKs] using h) hc
    · exact tzNumOKs_sound (by simpa [tzOKs] using h) hc
    · rfl
    · rfl
    · rfl

/-! ### the per-row check of `shapeOK` -/

/-- **every symbolic word that can fill a named group has the shape of the group's field kind** -/
def shapeFromCatalogue (row : RRow) (body : List Piece) : Bool :=
  fieldPass row body "year" (yearOKs row.dtfs.year) && fieldPass row body "month" (monthOKs row.dtfs.month) &&
  fieldPass row body "day" dayOKs && fieldPass row body "hour" (hourOKs row.dtfs.hour) &&
  fieldPass row body "minute" minuteOKs && fieldPass row body "second" (secOKs row.dtfs.second) &&
  fieldPass row body "fractional" (fracOKs row.dtfs.fractional) && fieldPass row body "tz" (tzOKs row.dtfs.tz)

/-- **soundness, once for all rows**: the check discharges `shapeOK` for every valid selection -/
theorem shapeFromCatalogue_sound {row : RRow} {body : List Piece} (h : shapeFromCatalogue row body = true)
    (sel : Sel) (hv : Valid body sel) (fill : Option Int) (hf : fillOK row.dtfs.year fill = true) :
    shapeOK row.dtfs (selFields row sel) fill = true := by
  simp only [shapeFromCatalogue, Bool.and_eq_true] at h
  obtain ⟨⟨⟨⟨⟨⟨⟨hy, hm⟩, hd⟩, hh⟩, hn⟩, hs⟩, hfr⟩, hz⟩ := h
  simp only [shapeOK, Bool.and_eq_true, selFields]
  exact ⟨⟨⟨⟨⟨⟨⟨fieldPass_sound (PC := fun o => yearOK row.dtfs.year o fill) hy (yearOKs_sound _ fill hf) hv,
    fieldPass_sound hm (monthOKs_sound _) hv⟩, fieldPass_sound hd dayOKs_sound hv⟩,
    fieldPass_sound hh (hourOKs_sound _) hv⟩, fieldPass_sound hn minuteOKs_sound hv⟩,
    fieldPass_sound hs (secOKs_sound _) hv⟩, fieldPass_sound hfr (fracOKs_sound _) hv⟩, fieldPass_sound hz (tzOKs_sound _) hv⟩

/-! ### the part of `rangeOK` the catalogue guarantees -/

/-- a concrete predicate on the field, tested on every concrete word of the symbolic words (`pn` = its value on an absent field) -/
def valS (bound : Nat) (PC : Option Bytes → Bool) (o : Option (List Sym)) : Bool :=
  match o with
  | some ss => enumOK bound ss (fun t => PC (some t))
  | none => PC none

theorem valS_sound (bound : Nat) (PC : Option Bytes → Bool) : OptSound (valS bound PC) PC :=
  ⟨fun h => h, fun _ _ h hc => enumOK_sound (P := fun t => PC (some t)) h hc⟩

def monthIn (mk : DTFS_Month) (o : Option Bytes) : Bool := decide (1 ≤ monthVal mk o ∧ monthVal mk o ≤ 12)
def dayIn (o : Option Bytes) : Bool := decide (1 ≤ dayVal o ∧ dayVal o ≤ 31)
def minuteIn (o : Option Bytes) : Bool := decide (numOptVal o ≤ 59)
def secIn (sk : DTFS_Second) (o : Option Bytes) : Bool := decide (secVal sk o ≤ 60)

/-- **month 1–12, day 1–31, minute ≤ 59, second ≤ 60 for every word the catalogue admits** -/
def rangeFromCatalogue (row : RRow) (body : List Piece) : Bool :=
  fieldPass row body "month" (valS 16 (monthIn row.dtfs.month)) && fieldPass row body "day" (valS 16 dayIn) &&
  fieldPass row body "minute" (valS 128 minuteIn) && fieldPass row body "second" (valS 128 (secIn row.dtfs.second))

/-- what the catalogue does NOT guarantee: hour ≤ 23 (the rows accept `24`), numeric zone hours ≤ 23 and minutes ≤ 59
(`[012][[:digit:]]`, `[[:digit:]]{2}`), and the day exists in that month of that year -/
def calendarOK (set : DTFSSet) (c : Captures) (fill : Option Int) : Bool :=
  decide (numOptVal c.hour ≤ 23) && tzRange set.tz c.tz &&
  validDate (yearVal set.year c.year fill) (monthVal set.month c.month) (dayVal c.day)

theorem rangeFromCatalogue_sound {row : RRow} {body : List Piece} (h : rangeFromCatalogue row body = true)
    (sel : Sel) (hv : Valid body sel) (fill : Option Int) (hc : calendarOK row.dtfs (selFields row sel) fill = true) :
    rangeOK row.dtfs (selFields row sel) fill = true := by
  simp only [rangeFromCatalogue, Bool.and_eq_true] at h
  obtain ⟨⟨⟨hm, hd⟩, hn⟩, hs⟩ := h
  have h1 := fieldPass_sound hm (valS_sound _ _) hv
  have h2 := fieldPass_sound hd (valS_sound _ _) hv
  have h3 := fieldPass_sound hn (valS_sound _ _) hv
  have h4 := fieldPass_sound hs (valS_sound _ _) hv
  simp only [calendarOK, Bool.and_eq_true] at hc
  simp only [monthIn, dayIn, minuteIn, secIn] at h1 h2 h3 h4
  simp only [rangeOK, Bool.and_eq_true, selFields] at hc ⊢
  exact ⟨⟨⟨⟨⟨⟨h1, h2⟩, hc.1.1⟩, h3⟩, h4⟩, hc.1.2⟩, hc.2⟩

/-- `rangeOK` is `calendarOK` plus the four catalogue-guaranteed ranges (nothing is lost by the split) -/
theorem rangeOK_iff (set : DTFSSet) (c : Captures) (fill : Option Int) :
    rangeOK set c fill = (monthIn set.month c.month && dayIn c.day && minuteIn c.minute && secIn set.second c.second &&
      calendarOK set c fill) := by
  simp only [rangeOK, calendarOK, monthIn, dayIn, minuteIn, secIn]
  cases decide (1 ≤ monthVal set.month c.month ∧ monthVal set.month c.month ≤ 12) <;>
  cases decide (1 ≤ dayVal c.day ∧ dayVal c.day ≤ 31) <;> cases decide (numOptVal c.hour ≤ 23) <;>
  cases decide (numOptVal c.minute ≤ 59) <;> cases decide (secVal set.second c.second ≤ 60) <;>
  cases tzRange set.tz c.tz <;> simp

/-! ### both checks in ONE traversal of the catalogue (what the per-row kernel computation evaluates) -/

/-- `slotsPass` for several groups at once -/
def slotsPassAll (checks : List (Nat × (List Sym → Bool))) (body : List Piece) : Bool :=
  body.all (fun q => q.dom.all (fun e => checks.all (fun c =>
    match capGet e.2 c.1 with
    | some ab => c.2 (symSlice e.1 ab)
    | none => true)))

theorem slotsPass_of_all {checks : List (Nat × (List Sym → Bool))} {body : List Piece} (h : slotsPassAll checks body = true)
    {g : Nat} {P : List Sym → Bool} (hm : (g, P) ∈ checks) : slotsPass g P body = true := by
  simp only [slotsPassAll, slotsPass, List.all_eq_true] at h ⊢
  intro q hq e he
  exact h q hq e he (g, P) hm

theorem slotsPass_mono {g : Nat} {P P' : List Sym → Bool} (hP : ∀ ss, P ss = true → P' ss = true) {body : List Piece}
    (h : slotsPass g P body = true) : slotsPass g P' body = true := by
  simp only [slotsPass, List.all_eq_true] at h ⊢
  intro q hq e he
  have h1 := h q hq e he
  cases hc : capGet e.2 g with
  | none => rfl
  | some ab => rw [hc] at h1; exact hP _ h1

theorem fieldPass_mono {row : RRow} {body : List Piece} {name : String} {PS PS' : Option (List Sym) → Bool}
    (hP : ∀ o, PS o = true → PS' o = true) (h : fieldPass row body name PS = true) : fieldPass row body name PS' = true := by
  unfold fieldPass at h ⊢
  cases hl : row.names.lookup name with
  | none => rw [hl] at h; exact hP _ h
  | some g =>
    rw [hl] at h
    simp only [Bool.and_eq_true, Bool.or_eq_true] at h ⊢
    exact ⟨slotsPass_mono (fun ss => hP (some ss)) h.1, h.2.imp id (hP none)⟩

/-- two tests on the same field -/
def both (A B : Option (List Sym) → Bool) : Option (List Sym) → Bool := fun o => A o && B o

theorem both_l {A B : Option (List Sym) → Bool} (o : Option (List Sym)) (h : both A B o = true) : A o = true := by
  simp only [both, Bool.and_eq_true] at h; exact h.1

theorem both_r {A B : Option (List Sym) → Bool} (o : Option (List Sym)) (h : both A B o = true) : B o = true := by
  simp only [both, Bool.and_eq_true] at h; exact h.2

/-- the symbolic tests of a row, one per named field (shape and, where the catalogue guarantees it, range) -/
def catChecks (row : RRow) : List (String × (Option (List Sym) → Bool)) :=
  [("year", yearOKs row.dtfs.year),
   ("month", both (monthOKs row.dtfs.month) (valS 16 (monthIn row.dtfs.month))),
   ("day", both dayOKs (valS 16 dayIn)),
   ("hour", hourOKs row.dtfs.hour),
   ("minute", both minuteOKs (valS 128 minuteIn)),
   ("second", both (secOKs row.dtfs.second) (valS 128 (secIn row.dtfs.second))),
   ("fractional", fracOKs row.dtfs.fractional),
   ("tz", tzOKs row.dtfs.tz)]

/-- **the per-row check**: `shapeFromCatalogue` and `rangeFromCatalogue` evaluated in one traversal of the catalogue -/
def catOK (row : RRow) (body : List Piece) : Bool :=
  slotsPassAll ((catChecks row).filterMap (fun c => (row.names.lookup c.1).map (fun g => (g, fun ss => c.2 (some ss))))) body &&
  (catChecks row).all (fun c =>
    match row.names.lookup c.1 with
    | none => c.2 none
    | some g => !mayNone g body || c.2 none)

theorem fieldPass_of_catOK {row : RRow} {body : List Piece} (h : catOK row body = true) {name : String}
    {PS : Option (List Sym) → Bool} (hm : (name, PS) ∈ catChecks row) : fieldPass row body name PS = true := by
  simp only [catOK, Bool.and_eq_true] at h
  have h2 := List.all_eq_true.mp h.2 (name, PS) hm
  unfold fieldPass
  cases hl : row.names.lookup name with
  | none => simpa [hl] using h2
  | some g =>
    simp only [hl] at h2
    simp only [Bool.and_eq_true]
    refine ⟨slotsPass_of_all h.1 (List.mem_filterMap.mpr ⟨(name, PS), hm, ?_⟩), h2⟩
    simp [hl]

theorem catOK_fields {row : RRow} {body : List Piece} (h : catOK row body = true) :
    fieldPass row body "year" (yearOKs row.dtfs.year) = true ∧
    fieldPass row body "month" (both (monthOKs row.dtfs.month) (valS 16 (monthIn row.dtfs.month))) = true ∧
    fieldPass row body "day" (both dayOKs (valS 16 dayIn)) = true ∧
    fieldPass row body "hour" (hourOKs row.dtfs.hour) = true ∧
    fieldPass row body "minute" (both minuteOKs (valS 128 minuteIn)) = true ∧
    fieldPass row body "second" (both (secOKs row.dtfs.second) (valS 128 (secIn row.dtfs.second))) = true ∧
    fieldPass row body "fractional" (fracOKs row.dtfs.fractional) = true ∧
    fieldPass row body "tz" (tzOKs row.dtfs.tz) = true :=
  ⟨fieldPass_of_catOK h (by simp [catChecks]), fieldPass_of_catOK h (by simp [catChecks]),
   fieldPass_of_catOK h (by simp [catChecks]), fieldPass_of_catOK h (by simp [catChecks]),
   fieldPass_of_catOK h (by simp [catChecks]), fieldPass_of_catOK h (by simp [catChecks]),
   fieldPass_of_catOK h (by simp [catChecks]), fieldPass_of_catOK h (by simp [catChecks])⟩

theorem shape_of_catOK {row : RRow} {body : List Piece} (h : catOK row body = true) : shapeFromCatalogue row body = true := by
  obtain ⟨hy, hm, hd, hh, hn, hs, hf, hz⟩ := catOK_fields h
  simp only [shapeFromCatalogue, Bool.and_eq_true]
  exact ⟨⟨⟨⟨⟨⟨⟨hy, fieldPass_mono both_l hm⟩, fieldPass_mono both_l hd⟩, hh⟩, fieldPass_mono both_l hn⟩,
    fieldPass_mono both_l hs⟩, hf⟩, hz⟩

theorem range_of_catOK {row : RRow} {body : List Piece} (h : catOK row body = true) : rangeFromCatalogue row body = true := by
  obtain ⟨_, hm, hd, _, hn, hs, _, _⟩ := catOK_fields h
  simp only [rangeFromCatalogue, Bool.and_eq_true]
  exact ⟨⟨⟨fieldPass_mono both_r hm, fieldPass_mono both_r hd⟩, fieldPass_mono both_r hn⟩, fieldPass_mono both_r hs⟩

/-- **the shaped join**: from the per-row fact, for every valid selection, `shapeOK` holds and `rangeOK` follows from `calendarOK` -/
theorem catOK_sound {row : RRow} {body : List Piece} (h : catOK row body = true) (sel : Sel) (hv : Valid body sel)
    (fill : Option Int) (hf : fillOK row.dtfs.year fill = true) :
    shapeOK row.dtfs (selFields row sel) fill = true ∧
    (calendarOK row.dtfs (selFields row sel) fill = true → rangeOK row.dtfs (selFields row sel) fill = true) :=
  ⟨shapeFromCatalogue_sound (shape_of_catOK h) sel hv fill hf, rangeFromCatalogue_sound (range_of_catOK h) sel hv fill⟩

/-- the offending entries of a field check, for the report: (piece index, symbolic word of the slot) -/
def offenders (row : RRow) (body : List Piece) (name : String) (PS : Option (List Sym) → Bool) : List (Nat × List Sym) :=
  match row.names.lookup name with
  | none => []
  | some g =>
    (body.zipIdx.flatMap (fun qi => qi.1.dom.filterMap (fun e =>
      match capGet e.2 g with
      | some ab => if PS (some (symSlice e.1 ab)) then none else some (qi.2, symSlice e.1 ab)
      | none => none)))

end S4V.Lemmas.RegexE2E
