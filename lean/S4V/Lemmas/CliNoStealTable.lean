/-
The first-match decision of C14 on the generated table (see `S4V.Lemmas.CliNoSteal`).

The kernel spends ~0.1 s on every `String.toList` of a generated pattern, and the decision looks at
2850 ordered pairs of rows; so the item lists of each row are taken from the generated cache
`S4V.Gen.CliItems.cliRowItems`, which is FIRST checked against the generated rows (`infos_eq`:
`parsePattern (rowPattern row)`, `parsePattern row.pattern`, `effItems row` for every row of
`cliFilterPatterns`; the flags are read off the rows themselves). A change of the table in s4.rs
regenerates both files and re-runs every decision below.
-/
import S4V.Gen.CliItems
import S4V.Lemmas.CliNoSteal

namespace S4V.Lemmas.CliNoSteal
open S4V.Model.Cli S4V.Gen.CliTables S4V.Gen.CliItems S4V.Lemmas.CliAbs

/-- the item a code of `S4V.Gen.CliItems` stands for -/
def decodeItem : Nat × Nat → Item
  | (0, c) => .lit (Char.ofNat c)
  | (1, _) => .space
  | (2, _) => .year
  | (3, _) => .month
  | (4, _) => .day
  | (5, _) => .hour
  | (6, _) => .minute
  | (7, _) => .second
  | (8, _) => .timestamp
  | (9, k) => .nano k
  | (10, 0) => .tz false
  | (10, _) => .tz true
  | (11, _) => .tzName
  | _ => .bad

/-- the rows as the decision sees them: flags from the generated rows, items from the generated cache -/
def infosGen : List RowInfo :=
  List.zipWith (fun r c => ⟨r.hasTz, r.hasTzZ, r.hasTime, c.1.map decodeItem, c.2.1.map decodeItem, c.2.2.map decodeItem⟩)
    cliFilterPatterns cliRowItems

/-- table fact: the cache is what the model computes from the generated rows (both generated tables and
`appendTimePattern` unfolded) -/
theorem infos_eq : cliFilterPatterns.map rowInfo = infosGen := by decide +kernel

/-- table fact: every earlier row refuses, or agrees on, every value of every later row -/
theorem table_pairs : allPairs pairOkI infosGen = true := by decide +kernel

/-- for every row of the generated table and every earlier row: `pairOk` -/
theorem pairOk_table (i : Nat) (ri : Row) (hrow : cliFilterPatterns[i]? = some ri) :
    ∀ rj ∈ cliFilterPatterns.take i, pairOk rj ri = true :=
  pairs_of_infos pairOkI (by rw [infos_eq]; exact table_pairs) i ri hrow

/-- table fact: how the 2850 ordered pairs are settled — refused / "refuses or same `Parsed`" / open -/
theorem table_kinds :
    (List.range infosGen.length).foldl (fun acc i =>
      match infosGen[i]? with
      | some b => (infosGen.take i).foldl (fun acc a =>
          match pairKindI a b with
          | 0 => (acc.1 + 1, acc.2.1, acc.2.2)
          | 1 => (acc.1, acc.2.1 + 1, acc.2.2)
          | _ => (acc.1, acc.2.1, acc.2.2 + 1)) acc
      | none => acc) (0, 0, 0) = (2754, 96, 0) := by
  decide +kernel

/-- table fact: the rows ALL of whose earlier rows refuse every value -/
theorem table_refused :
    rowsWhere refusePairI infosGen =
      [0, 1, 2, 3, 4, 5, 15, 16, 17, 18, 19, 20, 30, 31, 32, 33, 35, 36, 57, 58, 59, 60, 61, 62, 72, 73, 74, 75] := by
  decide +kernel

end S4V.Lemmas.CliNoSteal
