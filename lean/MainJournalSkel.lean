/-
Model driver `drv_jskel`: the `jrn` requests (journal window selection, end-to-end against the real `s4`
binary in vlib/props/C09.py) answered by the interpreter of the REGENERATED enumeration skeleton. Separate
executable so that a translator failure in this slice cannot break the others.
-/
import S4V.Model.Wire
import S4V.Drv.JournalSkel

open S4V.Model.Wire

def step (line : String) : String :=
  match words line with
  | "jrn" :: rest => S4V.Drv.JournalSkel.stepJskel rest
  | "jskel" :: rest => S4V.Drv.JournalSkel.stepJskel rest
  | _ => "bad-op"

partial def loop (h : IO.FS.Stream) (out : IO.FS.Stream) : IO Unit := do
  let line ← h.getLine
  if line.isEmpty then return ()
  out.putStrLn (step line)
  loop h out

def main : IO Unit := do
  let out ← IO.getStdout
  loop (← IO.getStdin) out
  out.flush
