/-
Model driver for the end-to-end regex slice (`time norm` requests answered by the model's regex + pipeline):
one request per line on stdin, one reply per line on stdout.
-/
import S4V.Model.Wire
import S4V.Drv.RegexE2E

open S4V.Model.Wire

def step (line : String) : String :=
  match words line with
  | "time" :: rest => S4V.Drv.RegexE2E.stepRegexE2E rest
  | "e2e" :: rest => S4V.Drv.RegexE2E.stepRegexE2E rest
  | _ => "bad-op"

partial def loop (h : IO.FS.Stream) (out : IO.FS.Stream) : IO Unit := do
  let line ← h.getLine
  if line.isEmpty then return ()
  out.putStrLn (step line)
  loop h out

def main : IO Unit := do
  let out ← IO.getStdout
  loop (← IO.getStdin) out
  out.flush
