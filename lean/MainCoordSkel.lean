/-
Model driver for the `cskel` component: one request per line on stdin, one reply per line on
stdout. Separate executable so that a translator failure in one slice cannot break the others.
-/
import S4V.Model.Wire
import S4V.Drv.CoordSkel

open S4V.Model.Wire

def step (line : String) : String :=
  match words line with
  | "cskel" :: rest => S4V.Drv.CoordSkel.stepCoordSkel rest
  | _ => "bad-op"

partial def loop (h : IO.FS.Stream) (out : IO.FS.Stream) : IO Unit := do
  let line ← h.getLine
  if line.isEmpty then return ()
  out.putStrLn (step line)
  loop h out

def main : IO Unit := do
  let out ← IO.getStdout
  loop (← IO.getStdin) out
  out.flush
