/-
Model driver `drv_wskel`: the `walk` / `walk tar` requests answered by the interpreter of the regenerated
`process_path` skeleton (plus `wskel splice`). Separate executable so that a translator failure in this
slice cannot break the others.
-/
import S4V.Model.Wire
import S4V.Drv.WalkSkel

open S4V.Model.Wire

def step (line : String) : String :=
  match words line with
  | "walk" :: rest => S4V.Drv.WalkSkel.stepWskel rest
  | "wskel" :: "splice" :: rest => S4V.Drv.WalkSkel.stepSplice rest
  | "wskel" :: rest => S4V.Drv.WalkSkel.stepWskel rest
  | _ => "bad-op"

partial def loop (h : IO.FS.Stream) (out : IO.FS.Stream) : IO Unit := do
  let line ← h.getLine
  if line.isEmpty then return ()
  out.putStrLn (step line)
  loop h out

def main : IO Unit := do
  let out ← IO.getStdout
  loop (← IO.getStdin) out
  out.flush
