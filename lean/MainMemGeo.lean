/-
Model driver for the `memgeo` op (C17: marks of the stage-3 counting model for a given message geometry):
one request per line on stdin, one reply per line on stdout.
-/
import S4V.Model.Wire
import S4V.Drv.MemGeo

open S4V.Model.Wire

def step (line : String) : String :=
  match words line with
  | "memgeo" :: rest => S4V.Drv.MemGeo.stepMemGeo rest
  | _ => "bad-op"

partial def loop (h : IO.FS.Stream) (out : IO.FS.Stream) : IO Unit := do
  let line ← h.getLine
  if line.isEmpty then return ()
  out.putStrLn (step line)
  loop h out

def main : IO Unit := do
  let out ← IO.getStdout
  loop (← IO.getStdin) out
  out.flush
