/-
Model driver: one request per line on stdin, one reply per line on stdout.
Imports model files only (no Mathlib) so it links as a `lean_exe`.
-/
import S4V.Model.Wire
import S4V.Model.Path

open S4V.Model S4V.Model.Wire

def stepPath : List String → String
  | ["cls", h, ua] =>
    match unhex h with
    | some n =>
      match Path.classify n (ua = "1") with
      | some r => r.toString
      | none => "nofuel"
    | none => "bad-op"
  | _ => "bad-op"

def step (line : String) : String :=
  match words line with
  | "path" :: rest => stepPath rest
  | _ => "bad-op"

partial def loop (h : IO.FS.Stream) (out : IO.FS.Stream) : IO Unit := do
  let line ← h.getLine
  if line.isEmpty then return ()
  out.putStrLn (step line)
  loop h out

def main : IO Unit := do
  let out ← IO.getStdout
  loop (← IO.getStdin) out
  out.flush
