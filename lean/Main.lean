/-
Model driver: one request per line on stdin, one reply per line on stdout.
Imports model files only (no Mathlib) so it links as a `lean_exe`.
-/
import S4V.Model.Wire
import S4V.Model.Path
import S4V.Model.Lines
import S4V.Model.LinesCached
import S4V.Model.Coord
import S4V.Model.Time
import S4V.Model.Syslines
import S4V.Model.Gate
import S4V.Model.SortDrain
import S4V.Drv.Journal
import S4V.Drv.Tmp
import S4V.Drv.Fixed
import S4V.Drv.SyslCached

open S4V.Model S4V.Model.Wire

def stepPath : List String → String
  | ["cls", h, ua] =>
    match unhex h with
    | some n =>
      match Path.classify n (ua = "1") with
      | some r => r.toString
      | none => "nofuel"
    | none => "bad-op"
  | _ => "bad-op"

def stepBlk : List String → String
  | [bs, fsz, fo] =>
    match bs.toNat?, fsz.toNat?, fo.toNat? with
    | some bs, some _fsz, some fo =>
      let off := S4V.Gen.Blocks.blockOffsetAtFileOffset fo bs
      let idx := S4V.Gen.Blocks.blockIndexAtFileOffset fo bs
      let cnt := S4V.Gen.Blocks.countBlocks _fsz bs
      let fob := S4V.Gen.Blocks.fileOffsetAtBlockOffset off bs
      let foi := S4V.Gen.Blocks.fileOffsetAtBlockOffsetIndex off bs idx
      s!"{off} {idx} {cnt} {fob} {foi}"
    | _, _, _ => "bad-op"
  | _ => "bad-op"

def histOp (bs : Nat) (d : List UInt8) (op : String) : String :=
  let kind := op.take 1 |>.toString
  match (op.drop 1).toString.toNat? with
  | none => "bad-op"
  | some fo =>
    if kind = "f" then
      match Lines.findLine bs d fo with
      | .done => "done"
      | .found n _ => s!"found {n} {Lines.lineStart d fo} {Lines.lineEnd d fo}"
    else if kind = "i" then "ib-ok"
    else if kind = "d" then "drop"
    else "bad-op"

def stepLine : List String → String
  | "fresh" :: bs :: h :: fo :: [] =>
    match bs.toNat?, unhex h, fo.toNat? with
    | some bs, some d, some fo => (Lines.findLine bs d fo).toString
    | _, _, _ => "bad-op"
  | "freshib" :: bs :: h :: fo :: [] =>
    match bs.toNat?, unhex h, fo.toNat? with
    | some bs, some d, some fo => (Lines.findLineInBlock bs d fo).toString
    | _, _, _ => "bad-op"
  | "hist" :: bs :: h :: ops =>
    match bs.toNat?, unhex h with
    | some bs, some d =>
      let plain := ops.map (histOp bs d)
      -- the same history through the model WITH caches (LRU, line store, foend_to_fobeg, A1a/A1b
      -- shortcuts, drop_line); both models must give the same answers
      let cops : List LinesCached.Op := ops.filterMap fun op =>
        let kind := (op.take 1).toString
        match (op.drop 1).toString.toNat? with
        | some fo => if kind = "f" then some (.find fo) else if kind = "d" then some (.drop fo) else none
        | none => none
      let cres := (LinesCached.runOps d LinesCached.empty cops).1
      let cstr : List String := cres.map fun r => match r with
        | some .done => "done"
        | some (.found n b e) => s!"found {n} {b} {e}"
        | none => "drop"
      let pstr := (ops.zip plain).filterMap fun (op, r) => if (op.take 1).toString = "i" then none else some r
      if cstr = pstr then String.intercalate ";" plain
      else "CACHED-MODEL-DIFFERS " ++ String.intercalate ";" cstr
    | _, _ => "bad-op"
  | _ => "bad-op"

def parseTEv (t : String) : Option Coord.TEv :=
  match t.splitOn ":" with
  | ["RI", i, ok] => i.toNat?.map (fun i => .rI i (ok = "1"))
  | ["RM", i, dt] => match i.toNat?, parseInt? dt with
    | some i, some dt => some (.rM i dt)
    | _, _ => none
  | ["RS", i, ok] => i.toNat?.map (fun i => .rS i (ok = "1"))
  | ["RX", i] => i.toNat?.map (fun i => .rX i)
  | ["P", i, dt] => match i.toNat?, parseInt? dt with
    | some i, some dt => some (.p i dt)
    | _, _ => none
  | ["B"] => some .b
  | ["E"] => some .e
  | _ => none

/-- scripts = per-source subsequence of the observed receive events -/
def scriptsOf (n : Nat) (evs : List Coord.TEv) : List (List Coord.Datum) :=
  (List.range n).map fun i =>
    let ds := evs.filterMap fun
      | .rI j ok => if i = j then some (Coord.Datum.fileInfo ok) else none
      | .rM j dt => if i = j then some (Coord.Datum.msg ⟨dt, 0⟩) else none
      | .rS j ok => if i = j then some (Coord.Datum.summary ok) else none
      | _ => none
    -- tag messages by their index within the source
    (ds.foldl (fun (acc : List Coord.Datum × Nat) d =>
      match d with
      | .msg m => (acc.1 ++ [Coord.Datum.msg ⟨m.dt, acc.2⟩], acc.2 + 1)
      | d => (acc.1 ++ [d], acc.2)) ([], 0)).1

def stepCoord : List String → String
  | n :: toks =>
    match n.toNat? with
    | none => "bad-op"
    | some n =>
      match toks.mapM parseTEv with
      | none => "bad-op"
      | some evs =>
        let scripts := scriptsOf n evs
        match Coord.replay (Coord.init scripts) evs 0 with
        | .error k => s!"not-enabled {k}"
        | .ok s =>
          let merged := decide (s.printed = Coord.merge (scripts.map Coord.msgsOf))
          s!"ok printed={s.printed.length} merged={merged} fin={s.fin} broke={s.broke}"
  | _ => "bad-op"

def optT (s : String) : Option (Option Int) := if s = "n" then some none else (parseInt? s).map some

def syslOp (ls : List Syslines.LineInfo) (gz : Bool) (op : String) : String :=
  let kind := (op.take 1).toString
  let rest := (op.drop 1).toString
  if kind = "s" then
    match rest.toNat? with
    | some fo => (Syslines.findSysline ls fo).toString
    | none => "bad-op"
  else if kind = "b" then
    match rest.splitOn ":" with
    | [fo, a] => match fo.toNat?, optT a with
      | some fo, some a =>
        (if gz then Syslines.lsearch ls a (ls.length + 2) fo else Syslines.bsearch ls fo a).toString
      | _, _ => "bad-op"
    | _ => "bad-op"
  else if kind = "w" then
    match rest.splitOn ":" with
    | [a, b] => match optT a, optT b with
      | some a, some b =>
        "msgs " ++ String.intercalate "," ((Syslines.streamAll ls gz a b).map fun m => s!"{m.beg}-{m.fin}-{m.dt}")
      | _, _ => "bad-op"
    | _ => "bad-op"
  else "bad-op"

def stepSysl : List String → String
  | _bs :: kind :: h :: ops =>
    match unhex h with
    | some d =>
      let ls := Syslines.linesFrom Time.parseHead d
      String.intercalate ";" (ops.map (syslOp ls (kind = "gz")))
    | none => "bad-op"
  | _ => "bad-op"

def stepGate : List String → String
  | [bs, h] =>
    match bs.toNat?, unhex h with
    | some bs, some d => (Gate.gate Time.parseHead bs d).toString
    | _, _ => "bad-op"
  | _ => "bad-op"

def parsePair (s : String) : Option (Int × Int) :=
  match s.splitOn ":" with
  | [a, b] => match parseInt? a, parseInt? b with
    | some a, some b => some (a, b)
    | _, _ => none
  | _ => none

def optPair (s : String) : Option (Option (Int × Int)) := if s = "n" then some none else (parsePair s).map some

def stepSort : List String → String
  | ["fixed", a, b, recs] =>
    match optPair a, optPair b, (if recs = "-" then some [] else (recs.splitOn ",").mapM parsePair) with
    | some a, some b, some tvs =>
      let rs : List SortDrain.Rec := tvs.zipIdx.map fun (tv, i) => ⟨tv, i⟩
      String.intercalate "," ((SortDrain.fixedPrint rs a b).map toString)
    | _, _, _ => "bad-op"
  | ["evtx", a, b, evs] =>
    match optT a, optT b, (if evs = "-" then some [] else (evs.splitOn ",").mapM parseInt?) with
    | some a, some b, some tss =>
      let es : List SortDrain.Ev := tss.zipIdx.map fun (t, i) => ⟨t, i⟩
      String.intercalate "," ((SortDrain.evtxPrint es a b).map toString)
    | _, _, _ => "bad-op"
  | _ => "bad-op"

def stepProc : List String → String
  | [bs, h, a, b] =>
    match bs.toNat?, unhex h, optT a, optT b with
    | some bs, some d, some a, some b =>
      match Gate.gate Time.parseHead bs d with
      | .ok =>
        let ls := Syslines.linesFrom Time.parseHead d
        "ok " ++ String.intercalate "," ((Syslines.streamAll ls false a b).map fun m => s!"{m.beg}-{m.fin}-{m.dt}")
      | v => v.toString
    | _, _, _, _ => "bad-op"
  | _ => "bad-op"

def step (line : String) : String :=
  match words line with
  | "path" :: rest => stepPath rest
  | "line" :: rest => stepLine rest
  | "blk" :: rest => stepBlk rest
  | "coord" :: rest => stepCoord rest
  | "sysl" :: rest => stepSysl rest
  | "syslc" :: rest => S4V.Drv.stepSyslC rest
  | "gate" :: rest => stepGate rest
  | "proc" :: rest => stepProc rest
  | "sort" :: rest => stepSort rest
  | "jrn" :: rest => S4V.Drv.stepJournal rest
  | "tmp" :: rest => S4V.Drv.stepTmp rest
  | "fixed" :: rest => S4V.Drv.stepFixed rest
  | _ => "bad-op"

partial def loop (h : IO.FS.Stream) (out : IO.FS.Stream) : IO Unit := do
  let line ← h.getLine
  if line.isEmpty then return ()
  out.putStrLn (step line)
  loop h out

def main : IO Unit := do
  let out ← IO.getStdout
  loop (← IO.getStdin) out
  out.flush
