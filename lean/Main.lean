/-
Model driver: one request per line on stdin, one reply per line on stdout.
Imports model files only (no Mathlib) so it links as a `lean_exe`.
-/
import S4V.Model.Wire
import S4V.Model.Path
import S4V.Model.Lines

open S4V.Model S4V.Model.Wire

def stepPath : List String → String
  | ["cls", h, ua] =>
    match unhex h with
    | some n =>
      match Path.classify n (ua = "1") with
      | some r => r.toString
      | none => "nofuel"
    | none => "bad-op"
  | _ => "bad-op"

def stepBlk : List String → String
  | [bs, fsz, fo] =>
    match bs.toNat?, fsz.toNat?, fo.toNat? with
    | some bs, some _fsz, some fo =>
      let off := S4V.Gen.Blocks.blockOffsetAtFileOffset fo bs
      let idx := S4V.Gen.Blocks.blockIndexAtFileOffset fo bs
      let cnt := S4V.Gen.Blocks.countBlocks _fsz bs
      let fob := S4V.Gen.Blocks.fileOffsetAtBlockOffset off bs
      let foi := S4V.Gen.Blocks.fileOffsetAtBlockOffsetIndex off bs idx
      s!"{off} {idx} {cnt} {fob} {foi}"
    | _, _, _ => "bad-op"
  | _ => "bad-op"

def histOp (bs : Nat) (d : List UInt8) (op : String) : String :=
  let kind := op.take 1 |>.toString
  match (op.drop 1).toString.toNat? with
  | none => "bad-op"
  | some fo =>
    if kind = "f" then
      match Lines.findLine bs d fo with
      | .done => "done"
      | .found n _ => s!"found {n} {Lines.lineStart d fo} {Lines.lineEnd d fo}"
    else if kind = "i" then "ib-ok"
    else if kind = "d" then "drop"
    else "bad-op"

def stepLine : List String → String
  | "fresh" :: bs :: h :: fo :: [] =>
    match bs.toNat?, unhex h, fo.toNat? with
    | some bs, some d, some fo => (Lines.findLine bs d fo).toString
    | _, _, _ => "bad-op"
  | "freshib" :: bs :: h :: fo :: [] =>
    match bs.toNat?, unhex h, fo.toNat? with
    | some bs, some d, some fo => (Lines.findLineInBlock bs d fo).toString
    | _, _, _ => "bad-op"
  | "hist" :: bs :: h :: ops =>
    match bs.toNat?, unhex h with
    | some bs, some d => String.intercalate ";" (ops.map (histOp bs d))
    | _, _ => "bad-op"
  | _ => "bad-op"

def step (line : String) : String :=
  match words line with
  | "path" :: rest => stepPath rest
  | "line" :: rest => stepLine rest
  | "blk" :: rest => stepBlk rest
  | _ => "bad-op"

partial def loop (h : IO.FS.Stream) (out : IO.FS.Stream) : IO Unit := do
  let line ← h.getLine
  if line.isEmpty then return ()
  out.putStrLn (step line)
  loop h out

def main : IO Unit := do
  let out ← IO.getStdout
  loop (← IO.getStdin) out
  out.flush
