/-
Model driver for the `evtxr` component: one request per line on stdin, one reply per line on
stdout. Separate executable so that a translator failure in one slice cannot break the others.
-/
import S4V.Model.Wire
import S4V.Drv.EvtxReader

open S4V.Model.Wire

def step (line : String) : String :=
  match words line with
  | "evtxr" :: rest => S4V.Drv.EvtxReader.stepEvtxReader rest
  | _ => "bad-op"

partial def loop (h : IO.FS.Stream) (out : IO.FS.Stream) : IO Unit := do
  let line ← h.getLine
  if line.isEmpty then return ()
  out.putStrLn (step line)
  loop h out

def main : IO Unit := do
  let out ← IO.getStdout
  loop (← IO.getStdin) out
  out.flush
