-- Root of the `S4V` library (models, lemmas, property theorems).
import S4V.Model.Path
